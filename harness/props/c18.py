"""C18 -- Repeated execution leaves no per-run residue in the process.

proof side : Properties/C18.v over Model/Registry.v (registry keyed by category, queue of the Pipeline object's
             transport, job channel table, live generated classes; `run_once way cfg`), parameterised by
             Gen/RegistryGen.v (where classes are created, memoisation, registration, publish path).
tie        : every (configuration, way, traced) case is MEASURED IN A FRESH SUBPROCESS: registry category counts
             (`get_component_registry()`), queue length / channel count of the transport, live subclasses of
             _SemantivaComponent and len(gc.get_objects()) after gc.collect(), sampled before the configuration is
             touched, after the one-off start and after 1/10/30/90 (+150) repetitions (thorough: 1/50/150/450).
             Coq runs the model from the measured base counts and compares at every sample point (per category,
             queue, job channels, live classes, the names of the classes registered by the first repetition, and
             the evaluated closed form r0 + N*k).
             len(gc.get_objects()) belongs to CPython's allocator/GC: measured and reported, NOT modelled.
search     : direct oracle, independent of the model: count after 3N repetitions exceeds the count after N.
"""
from __future__ import annotations

import gc
import hashlib
import json
import os
import random
import sys
import tempfile
import threading
from concurrent.futures import ThreadPoolExecutor

WAYS = ["reused", "fresh", "runspace", "worker"]
WAY_COQ = {"reused": "WReused", "fresh": "WFresh", "runspace": "WRunSpace", "worker": "WWorker"}
WAY_SIG = {"reused": "reused-pipeline", "fresh": "fresh-pipeline", "runspace": "run-space", "worker": "queue-worker"}


# =====================================================================================================
# measurement (runs in a fresh subprocess: `python harness/props/c18.py --measure` with the job on stdin)

def _registry():
    from semantiva.core.semantiva_component import get_component_registry
    return get_component_registry()


def _live():
    from semantiva.core.semantiva_component import _SemantivaComponent
    seen, todo = set(), [_SemantivaComponent]
    while todo:
        c = todo.pop()
        for s in c.__subclasses__():
            if s not in seen:
                seen.add(s)
                todo.append(s)
    return len(seen)


def _instances():
    """live INSTANCES by category (the class population grows on the current tree, instances do not)"""
    from semantiva.pipeline.nodes.nodes import _PipelineNode
    from semantiva.data_processors.data_processors import _BaseDataProcessor
    from semantiva.context_processors.context_processors import ContextProcessor
    from semantiva.execution.transport.base import Message
    from semantiva.pipeline import Pipeline
    from semantiva.trace.drivers.jsonl import JsonlTraceDriver
    from concurrent.futures import Future
    from semantiva.core.semantiva_component import _SemantivaComponent
    from semantiva.logger import Logger as _SvLogger
    n = {"nodes": 0, "processors": 0, "messages": 0, "pipelines": 0, "drivers": 0, "futures": 0, "components": 0, "loggers": 0}
    # instances held as class attributes of registered (generated) classes are part of the class-registry residue
    # (finding F-C18-a: e.g. the generated context-processor node class stores its processor instance); they are
    # accounted to the registry count, not to the instance population
    held = set()
    for v in _registry().values():
        for c in v:
            for a in vars(c).values():
                held.add(id(a))
    for o in gc.get_objects():
        try:
            if id(o) in held:
                continue
            if isinstance(o, _PipelineNode):
                n["nodes"] += 1
            elif isinstance(o, (_BaseDataProcessor, ContextProcessor)):
                n["processors"] += 1
            elif isinstance(o, Message):
                n["messages"] += 1
            elif isinstance(o, Pipeline):
                n["pipelines"] += 1
            elif isinstance(o, JsonlTraceDriver):
                n["drivers"] += 1
            elif isinstance(o, Future):
                n["futures"] += 1
            elif isinstance(o, _SemantivaComponent):
                n["components"] += 1        # data-IO objects (sources, sinks), user components: whatever the class holds it through
            elif isinstance(o, _SvLogger):
                n["loggers"] += 1
        except Exception:  # noqa - objects with odd __class__ behaviour
            pass
    return n


def _reachable(roots, depth=9, limit=600000, closures=True):
    """ids of the objects reachable from `roots` through gc referents (classes and modules are not entered; of a
    function, classmethod or property only the closure cells are)"""
    import types
    seen = set()
    frontier = list(roots)
    for _ in range(depth):
        nxt = []
        for o in frontier:
            if isinstance(o, (classmethod, staticmethod)):
                refs = [o.__func__]
            elif isinstance(o, property):
                refs = [f for f in (o.fget, o.fset, o.fdel) if f is not None]
            elif isinstance(o, types.FunctionType):
                refs = (list(o.__closure__ or ()) if closures else []) + ([o.__dict__] if getattr(o, "__dict__", None) else [])
            else:
                refs = gc.get_referents(o)
            for r in refs:
                if id(r) in seen or isinstance(r, (type, types.ModuleType, types.CodeType)):
                    continue
                seen.add(id(r))
                nxt.append(r)
        frontier = nxt
        if not frontier or len(seen) > limit:
            break
    return seen


def _census(transports=()):
    """live objects of every class that is not a builtin, by module.qualname -- whatever the class: nothing in the process may
    accumulate with the number of runs (log handlers and filters, locks, caches of user-visible objects, ...).  Classes
    themselves (instances of a metaclass) are the registry residue and are counted there."""
    out = {}
    # accounted elsewhere: what the registered (generated) classes hold (registry residue, F-C18-a) and what sits in the
    # transports' queues (queue / channel residue, F-C18-b/c)
    roots = []
    for v in _registry().values():
        for c in v:
            roots.extend(vars(c).values())
    for tr in transports:
        qs = getattr(tr, "_queues", None)
        if qs is not None:
            roots.append(qs)
    accounted = _reachable(roots)
    # ... except component / logger INSTANCES that a registered class pins only through the closure of one of its functions:
    # the known finding is about classes (and what they store as attributes), not about live objects captured per run
    direct = _reachable(roots, closures=False)
    from semantiva.core.semantiva_component import _SemantivaComponent
    from semantiva.logger import Logger as _SvLogger
    for o in gc.get_objects():
        try:
            t = type(o)
            if id(o) in accounted and id(o) not in direct and isinstance(o, (_SemantivaComponent, _SvLogger)) and not isinstance(o, type):
                k = "closure-pinned:" + (getattr(t, "__module__", "") or "") + "." + getattr(t, "__qualname__", t.__name__)
                out[k] = out.get(k, 0) + 1
                continue
            if isinstance(o, type) or id(o) in accounted:
                continue
            m = getattr(t, "__module__", "") or ""
            if m in ("builtins", "_abc", "weakref", "_weakref", "abc", "types", "functools", "_thread", "collections", "itertools",
                     "_io", "_frozen_importlib", "_frozen_importlib_external", "importlib._bootstrap", "typing", "re", "enum"):
                continue
            k = m + "." + getattr(t, "__qualname__", t.__name__)
            out[k] = out.get(k, 0) + 1
        except Exception:  # noqa
            pass
    return out


def _containers():
    """sizes of every list / dict / set / deque bound to a module global or a class attribute of the semantiva package
    (process-wide registries, histories, caches); for a dict also the total size of its container values"""
    import collections
    out = {}
    for mn, m in list(sys.modules.items()):
        if not mn.startswith("semantiva") or m is None:
            continue
        for an, v in list(vars(m).items()):
            objs = [(mn + "." + an, v)]
            if isinstance(v, type) and getattr(v, "__module__", "") == mn:
                objs = [(mn + "." + an + "." + a2, v2) for a2, v2 in list(vars(v).items())]
            for name, o in objs:
                if isinstance(o, (list, dict, set, collections.deque)):
                    out[name] = len(o)
                    if isinstance(o, dict):
                        out[name + "[*]"] = sum(len(x) for x in o.values() if isinstance(x, (list, dict, set, collections.deque)))
    return out


ACCOUNTED_CONTAINERS = ("semantiva.core.semantiva_component._COMPONENT_REGISTRY[*]",)     # the registry count (F-C18-a)


def sample(transport=None, jobtransport=None):
    gc.collect()
    reg = _registry()
    out = {"reg": {k: len(v) for k, v in reg.items()}, "total": sum(len(v) for v in reg.values()),
           "live": _live(), "gc": len(gc.get_objects()), "inst": _instances(),
           "census": _census([t for t in (transport, jobtransport) if t is not None]), "containers": _containers()}
    if transport is not None:
        qs = getattr(transport, "_queues", None)
        if qs is not None:
            out["queue"] = sum(len(q) for q, _ in list(qs.values()))
            out["channels"] = len(qs)
    if jobtransport is not None:
        qs = jobtransport._queues
        out["jobqueue"] = sum(len(q) for q, _ in list(qs.values()))
        out["jobchannels"] = len(qs)
    return out


def names_since(base):
    out = []
    for k, v in _registry().items():
        for c in v[base.get(k, 0):]:
            out.append([k, c.__name__])
    return out


def measure(job):
    """One way of repeating one configuration `max(points)` times; samples at `points`."""
    from harness.lib import pipegen as pg
    pg.setup_impl()
    from semantiva.context_processors import ContextType
    from semantiva.pipeline import Payload, Pipeline
    way, nodes, ctx0, traced = job["way"], job["nodes"], job["ctx0"], job.get("traced", False)
    points = sorted(set(job["points"]))
    nmax = points[-1]
    tmp = tempfile.mkdtemp(prefix="c18_")
    res = {"way": way, "samples": {}, "status": "ok"}

    def mk_trace(i):
        if not traced:
            return None
        from semantiva.trace.drivers.jsonl import JsonlTraceDriver
        return JsonlTraceDriver(os.path.join(tmp, "t%d.jsonl" % i))

    def payload():
        return Payload(None, ContextType({k: pg.v_impl(v) for k, v in ctx0.items()}))

    cfgs = [pg.node_impl(n) for n in nodes]      # (harness-side component classes are created here, before s0)
    res["s0"] = s0 = sample()
    try:
        if way == "reused":
            pipe = Pipeline(cfgs)
            res["start"] = sample(pipe.transport)
            for i in range(1, nmax + 1):
                pipe.trace = mk_trace(i)
                before = sample()["reg"] if i == 1 else None
                pipe.process(payload())
                if i == 1:
                    res["run1_names"] = names_since(before)
                if i in points:
                    res["samples"][str(i)] = sample(pipe.transport)
        elif way == "fresh":
            res["start"] = sample()
            for i in range(1, nmax + 1):
                before = sample()["reg"] if i == 1 else None
                pipe = Pipeline(cfgs, trace=mk_trace(i))
                pipe.process(payload())
                if i == 1:
                    res["run1_names"] = names_since(before)
                if i in points:
                    res["samples"][str(i)] = sample(pipe.transport)
                del pipe
        elif way == "runspace":
            # `semantiva run file.yaml` with a run_space of nmax runs, in this process; Pipeline.__init__/process are
            # wrapped (harness side) to sample between the runs of the launch
            import yaml
            import semantiva.cli as cli
            rs_ctx = {"rs_i": list(range(nmax))}
            for k, v in ctx0.items():
                rs_ctx[k] = [pg.v_impl(v)] * nmax
            doc = {"extensions": ["semantiva-examples"], "pipeline": {"nodes": cfgs},
                   "run_space": {"max_runs": nmax + 10, "blocks": [{"mode": "by_position", "context": rs_ctx}]}}
            if traced:
                doc["trace"] = {"driver": "jsonl", "output_path": os.path.join(tmp, "trace")}
            path = os.path.join(tmp, "p.yaml")
            with open(path, "w") as f:
                yaml.safe_dump(doc, f, sort_keys=False)
            count = [0]

            def init_wrap(self, *a, **kw):
                res["preflight"] = sample()        # after the CLI's pre-flight, before Pipeline.__init__
                orig_init(self, *a, **kw)
                res["start"] = sample(self.transport)

            def process_wrap(self, *a, **kw):
                before = sample()["reg"] if count[0] == 0 else None
                out = orig_process(self, *a, **kw)
                count[0] += 1
                if count[0] == 1:
                    res["run1_names"] = names_since(before)
                if count[0] in points:
                    res["samples"][str(count[0])] = sample(self.transport)
                return out
            orig_init, orig_process = Pipeline.__init__, Pipeline.process
            Pipeline.__init__, Pipeline.process = init_wrap, process_wrap
            try:
                try:
                    cli.main(["run", path, "-q"])
                    rc = 0
                except SystemExit as ex:
                    rc = ex.code or 0
            finally:
                Pipeline.__init__ = orig_init
                del Pipeline.process
            res["rc"] = rc
            if rc != 0 or count[0] != nmax:
                res["status"] = "cli rc=%s runs=%d" % (rc, count[0])
        elif way == "worker":
            # the real worker_loop in a thread; jobs are published / statuses collected exactly as
            # QueueSemantivaOrchestrator.run_forever does (its 0.2 s polling loop is not used: 450 jobs would take 90 s)
            import time
            from semantiva.execution.executor.executor import SequentialSemantivaExecutor
            from semantiva.execution.job_queue.worker import worker_loop
            from semantiva.execution.transport import InMemorySemantivaTransport
            from semantiva.logger import Logger
            from semantiva.registry.bootstrap import current_profile
            lg = Logger(level="CRITICAL", console_output=False)
            tr = InMemorySemantivaTransport()
            stop = threading.Event()
            # the profile shipped with every job names an optional plug-in module that is not installed here (legal: the
            # registry tolerates unimportable modules)
            from semantiva.registry.processor_registry import ProcessorRegistry
            ProcessorRegistry.register_modules(["verif_optional_plugin_not_installed"])
            wt = threading.Thread(target=worker_loop, args=(0, tr, SequentialSemantivaExecutor(), stop, lg, 0.002), daemon=True)
            res["start"] = sample(None, tr)
            wt.start()
            done = 0
            jobno = [0]

            def submit_and_wait(n):
                ids = []
                for _ in range(n):
                    jobno[0] += 1
                    jid = "job%06d" % jobno[0]
                    ids.append(jid)
                    tr.publish("jobs.%s.cfg" % jid, data=None, context=payload().context,
                               metadata={"job_id": jid, "pipeline": cfgs, "registry_profile": current_profile().as_dict()},
                               require_ack=False)
                got = set()
                t0 = time.time()
                while len(got) < n:
                    sub = tr.subscribe("jobs.*.status")
                    for msg in sub:
                        got.add(msg.context.get_value("job_id"))
                    sub.close()
                    if time.time() - t0 > 180:
                        raise TimeoutError("worker did not finish %d jobs (got %d)" % (n, len(got)))
                    time.sleep(0.001)
            try:
                for p in points:
                    if done == 0:
                        before = sample()["reg"]
                        submit_and_wait(1)
                        res["run1_names"] = names_since(before)
                        done = 1
                    submit_and_wait(p - done)
                    done = p
                    res["samples"][str(p)] = sample(None, tr)
            finally:
                stop.set()
                wt.join(timeout=5)
        else:
            raise ValueError(way)
    except Exception as ex:  # the configuration does not run this way
        import traceback
        res["status"] = "exception %s: %s" % (type(ex).__name__, str(ex)[:200])
        res["tb"] = traceback.format_exc()[-1500:]
    import shutil
    shutil.rmtree(tmp, ignore_errors=True)
    return res


def measure_master(points):
    """A long-lived master (QueueSemantivaOrchestrator.run_forever) + one real worker; succeeding and failing jobs are
    enqueued with return_future=True and their Futures awaited and dropped.  Sampled after `points` completed jobs:
    the master's table of pending Futures and the live instance population."""
    import time
    from harness.lib import pipegen as pg
    pg.setup_impl()
    from semantiva.execution.executor.executor import SequentialSemantivaExecutor
    from semantiva.execution.job_queue.queue_orchestrator import QueueSemantivaOrchestrator
    from semantiva.execution.job_queue.worker import worker_loop
    from semantiva.execution.transport import InMemorySemantivaTransport
    from semantiva.logger import Logger
    lg = Logger(level="CRITICAL", console_output=False)
    tr = InMemorySemantivaTransport()
    orch = QueueSemantivaOrchestrator(tr, stop_event=None, logger=lg)
    stop = threading.Event()
    mt = threading.Thread(target=orch.run_forever, daemon=True)
    wt = threading.Thread(target=worker_loop, args=(0, tr, SequentialSemantivaExecutor(), stop, lg, 0.002), daemon=True)
    mt.start()
    wt.start()
    ok_cfg = [{"processor": "FloatValueDataSource", "parameters": {"value": 1.0}},
              {"processor": "FloatMultiplyOperation", "parameters": {"factor": 2.0}}]
    bad_cfg = [{"processor": "FloatValueDataSource", "parameters": {"value": 1.0}},
               {"processor": "FloatDivideOperation", "parameters": {"divisor": 0.0}}]
    res = {"samples": {}, "status": "ok", "outcomes": {"result": 0, "exception": 0}}
    done = 0
    try:
        for p in sorted(points):
            # succeeding jobs, jobs failing at run time, and jobs whose configuration the worker rejects (missing YAML file / not a list)
            kinds = [ok_cfg, bad_cfg, "no_such_pipeline_file.yaml", ok_cfg, {"not": "a list"}, bad_cfg]
            for i in range(p - done):       # the API default: jobs enqueued without asking for a Future
                orch.enqueue(ok_cfg if i % 2 == 0 else bad_cfg)
            futs = [orch.enqueue(kinds[(done + i) % len(kinds)], return_future=True) for i in range(p - done)]
            t0 = time.time()
            for f in futs:
                try:
                    f.result(timeout=max(1.0, 60 - (time.time() - t0)))
                    res["outcomes"]["result"] += 1
                except Exception as ex:  # noqa
                    if type(ex).__name__ == "TimeoutError":
                        raise
                    res["outcomes"]["exception"] += 1
            del futs
            try:
                del f
            except NameError:
                pass
            # a legal schedule: the enqueuing thread is held up right after handing the job to the master's queue, long enough for
            # master, worker and the status message to finish before enqueue() goes on
            _put = orch.job_queue.put

            def slow_put(item, *a, **kw):
                r = _put(item, *a, **kw)
                time.sleep(0.3)
                return r
            orch.job_queue.put = slow_put
            try:
                for _ in range(2):
                    hf = orch.enqueue(ok_cfg, return_future=True)
                    try:
                        hf.result(timeout=6)
                        res["outcomes"]["result"] += 1
                    except Exception as ex:  # noqa
                        res["outcomes"]["held_up_unresolved" if type(ex).__name__ == "TimeoutError" else "exception"] = \
                            res["outcomes"].get("held_up_unresolved" if type(ex).__name__ == "TimeoutError" else "exception", 0) + 1
                    del hf
            finally:
                orch.job_queue.put = _put
            done = p
            time.sleep(0.5)         # let the master finish its iteration
            gc.collect()
            res["samples"][str(p)] = {"pending_futures": len(orch.pending_futures), "inst": _instances(), "census": _census([tr]),
                                      "containers": _containers(), "master_attrs": {k: len(v) for k, v in vars(orch).items() if isinstance(v, (list, dict, set))},
                                      "log_filters": len(lg.logger.filters) if hasattr(lg, "logger") else None,
                                      "log_handlers": len(lg.logger.handlers) if hasattr(lg, "logger") else None}
    except Exception as ex:  # noqa
        import traceback
        res["status"] = "exception %s: %s" % (type(ex).__name__, str(ex)[:200])
        res["tb"] = traceback.format_exc()[-1200:]
    finally:
        orch.stop()
        stop.set()
        mt.join(3)
        wt.join(3)
    return res


def measure_failures(points):
    """Runs that FAIL (inside a context processor's logic, inside an operation, at parameter resolution), each carrying a
    marker object in its context, on fresh and on reused Pipeline objects.  Sampled after `points` failed runs: live marker
    objects and live ContextType instances (the run's context must not outlive the failed run)."""
    from harness.lib import pipegen as pg
    pg.setup_impl()
    from harness.lib import components as HC
    from semantiva.context_processors import ContextType
    from semantiva.pipeline import Payload, Pipeline
    from semantiva.logger import Logger
    lg = Logger(level="CRITICAL", console_output=False)
    kinds = {
        "context-processor-raises": [{"processor": "FloatValueDataSource", "parameters": {"value": 1.0}}, {"processor": HC.VerifFailingContextProcessor}],
        "operation-raises": [{"processor": "FloatValueDataSource", "parameters": {"value": 1.0}}, {"processor": "FloatDivideOperation", "parameters": {"divisor": 0.0}}],
        "unresolved-parameter": [{"processor": "FloatValueDataSource", "parameters": {"value": 1.0}}, {"processor": "FloatMultiplyOperation"}],
        # configurations rejected when their nodes are built: a registered class that is no processor, a node without `processor`
        "non-processor-class": [{"processor": "FloatValueDataSource", "parameters": {"value": 1.0}}, {"processor": "FloatSquareOperation"},
                                {"processor": "PolynomialFittingModel"}],
        "data-type-as-processor": [{"processor": "FloatValueDataSource", "parameters": {"value": 1.0}}, {"processor": "FloatDataType"}],
        "node-without-processor": [{"processor": "FloatValueDataSource", "parameters": {"value": 1.0}}, {"parameters": {"factor": 2.0}}],
    }
    res = {"samples": {}, "status": "ok"}
    try:
        for kname, cfg in kinds.items():
            for way in ("fresh", "reused"):
                try:
                    reused = Pipeline([dict(c) for c in cfg], logger=lg) if way == "reused" else None
                except Exception:  # noqa - rejected when the Pipeline object is built: there is nothing to reuse
                    continue
                done, failed = 0, 0
                for p in sorted(points):
                    for _ in range(p - done):
                        pipe = None
                        try:
                            pipe = reused or Pipeline([dict(c) for c in cfg], logger=lg)
                            pipe.process(Payload(None, ContextType({"marker": HC.VerifRunMarker()})))
                        except Exception:  # noqa
                            failed += 1
                        del pipe
                    done = p
                    gc.collect()
                    live = {"markers": 0, "contexts": 0, "pipelines": 0}
                    # what sits in a reused Pipeline's transport queue is the known residue F-C18-b (one published message per node
                    # per run, each holding its payload): accounted there, not here
                    qs = getattr(getattr(reused, "transport", None), "_queues", None) if reused is not None else None
                    accounted = _reachable([qs]) if qs is not None else set()
                    for o in gc.get_objects():
                        try:
                            if id(o) in accounted:
                                continue
                            if isinstance(o, HC.VerifRunMarker):
                                live["markers"] += 1
                            elif isinstance(o, ContextType):
                                live["contexts"] += 1
                            elif isinstance(o, Pipeline):
                                live["pipelines"] += 1
                        except Exception:  # noqa
                            pass
                    res["samples"]["%s|%s|%d" % (kname, way, p)] = dict(live, failed=failed)
    except Exception as ex:  # noqa
        import traceback
        res["status"] = "exception %s: %s" % (type(ex).__name__, str(ex)[:300])
        res["tb"] = traceback.format_exc()[-1200:]
    return res


if __name__ == "__main__" and "--measure-failures" in sys.argv:
    import logging
    logging.disable(logging.CRITICAL)
    _real = sys.stdout
    sys.stdout = sys.stderr
    _out = measure_failures(json.load(sys.stdin))
    sys.stdout = _real
    sys.stdout.write(json.dumps(_out))
    sys.exit(0)


def failures_oracle(ck, thorough):
    """C18, failing runs: what a failed run was given must not stay alive after it."""
    pts = [5, 25, 75] if thorough else [4, 12, 36]
    r, err = core.run_impl("props/c18.py", args=["--measure-failures"], input_obj=pts, timeout=400)
    if r is None:
        ck.corr_problem("failing-runs measurement did not complete", str(err)[-1200:])
        return None
    if r.get("status") != "ok":
        ck.corr_problem("failing-runs measurement failed: %s" % r.get("status"), r.get("tb", ""))
        return r
    a, b = pts[-2], pts[-1]
    out = {}
    for key in sorted({k.rsplit("|", 1)[0] for k in r["samples"]}):
        sa, sb = r["samples"]["%s|%d" % (key, a)], r["samples"]["%s|%d" % (key, b)]
        out[key] = [sa, sb]
        if sb["failed"] != b:
            ck.corr_problem("failing-runs measurement: %s: %d of %d runs failed (all were expected to)" % (key, sb["failed"], b), "")
            continue
        for what in ("markers", "contexts", "pipelines"):
            if sb.get(what, 0) - sa.get(what, 0) >= max(3, (b - a) // 4):
                kname, way = key.split("|")
                ck.fail_input("C18:failed-runs-leave-%s-alive:%s:%s" % (what, kname, way),
                              "objects of FAILED runs stay alive (%s, %s Pipeline): %d live %s after %d failed runs, %d after %d"
                              % (kname, way, sa[what], what, a, sb[what], b), {"kind": "failing-runs", "case": key, "points": pts})
    return out


def measure_launches(points):
    """A long-lived program that launches `semantiva run` in-process again and again, each launch with its own captured
    stdout/stderr (what a service, a notebook or a test runner does).  Sampled after `points` launches."""
    import contextlib, io, logging
    from harness.lib import pipegen as pg
    pg.setup_impl()
    import yaml
    import semantiva.cli as cli
    tmp = tempfile.mkdtemp(prefix="c18_launch_")
    doc = {"extensions": ["semantiva-examples"],
           "pipeline": {"nodes": [{"processor": "FloatValueDataSource"}, {"processor": "FloatMultiplyOperation", "parameters": {"factor": 2.0}},
                                  {"processor": "FloatCollectValueProbe", "context_key": "k"}]},
           "run_space": {"blocks": [{"mode": "by_position", "context": {"value": [1.0, 2.0]}}]}}
    path = os.path.join(tmp, "p.yaml")
    with open(path, "w") as f:
        yaml.safe_dump(doc, f, sort_keys=False)
    res = {"samples": {}, "status": "ok"}
    done = 0
    nlaunch = [0]
    try:
        for p in sorted(points):
            for _ in range(p - done):
                out, err = io.StringIO(), io.StringIO()
                with contextlib.redirect_stdout(out), contextlib.redirect_stderr(err):
                    try:
                        nlaunch[0] += 1
                        # every second launch is traced (its own trace directory): launch bookkeeping of the trace side too
                        cli.main(["run", path] + (["--trace.driver", "jsonl", "--trace.output", os.path.join(tmp, "tr%d" % nlaunch[0])]
                                                  if nlaunch[0] % 2 == 0 else []))
                    except SystemExit as ex:
                        if ex.code not in (0, None):
                            raise RuntimeError("launch exit code %r: %s" % (ex.code, err.getvalue()[-300:]))
                del out, err
            done = p
            gc.collect()
            loggers = [logging.getLogger()] + [l for l in logging.Logger.manager.loggerDict.values() if isinstance(l, logging.Logger)]
            res["samples"][str(p)] = {"census": _census(), "inst": _instances(), "containers": _containers(),
                                      "log_handlers": sum(len(l.handlers) for l in loggers), "log_filters": sum(len(l.filters) for l in loggers),
                                      "total": sum(len(v) for v in _registry().values())}
    except Exception as ex:  # noqa
        import traceback
        res["status"] = "exception %s: %s" % (type(ex).__name__, str(ex)[:300])
        res["tb"] = traceback.format_exc()[-1200:]
    import shutil
    shutil.rmtree(tmp, ignore_errors=True)
    return res


if __name__ == "__main__" and "--measure-launches" in sys.argv:
    _real = sys.stdout
    _out = measure_launches(json.load(sys.stdin))
    sys.stdout = _real
    sys.stdout.write(json.dumps(_out))
    sys.exit(0)


def launches_oracle(ck, thorough):
    """C18, run-space launches repeated in one process: nothing may accumulate per launch."""
    pts = [5, 15, 45] if thorough else [4, 8, 16]
    r, err = core.run_impl("props/c18.py", args=["--measure-launches"], input_obj=pts, timeout=400)
    if r is None:
        ck.corr_problem("repeated-launch measurement did not complete", str(err)[-1200:])
        return None
    if r.get("status") != "ok" or len(r["samples"]) != len(pts):
        ck.corr_problem("repeated-launch measurement failed: %s" % r.get("status"), r.get("tb", ""))
        return r
    a, b = str(pts[-2]), str(pts[-1])
    sa, sb = r["samples"][a], r["samples"][b]
    rep = {"kind": "repeated-launches", "points": pts, "what": "semantiva run (2-run run space) launched in-process, stdout/stderr captured per launch"}
    for fld in ("log_handlers", "log_filters"):
        if sb[fld] > sa[fld]:
            ck.fail_input("C18:logger-%s-growth:repeated-launches" % fld[4:], "log %s accumulate with the number of launches in one process: %d after %s launches, "
                          "%d after %s" % (fld[4:], sa[fld], a, sb[fld], b), rep)
    for tname in sorted(sb["census"]):
        grow = sb["census"][tname] - sa["census"].get(tname, 0)
        if grow >= max(3, (int(b) - int(a)) // 3):
            ck.fail_input("C18:live-object-growth:%s:repeated-launches" % tname, "live %s objects accumulate with the number of launches in one process: "
                          "%d after %s launches, %d after %s" % (tname, sa["census"].get(tname, 0), a, sb["census"][tname], b), rep)
    for cname in sorted(sb.get("containers") or {}):
        if cname in ACCOUNTED_CONTAINERS:
            continue
        grow = sb["containers"][cname] - (sa.get("containers") or {}).get(cname, 0)
        if grow >= max(2, (int(b) - int(a)) // 3):
            ck.fail_input("C18:process-wide-container-growth:%s:repeated-launches" % cname,
                          "the process-wide container %s grows with the number of launches in one process (every second launch traced): %d entries after %s launches, "
                          "%d after %s" % (cname, (sa.get("containers") or {}).get(cname, 0), a, sb["containers"][cname], b), rep)
    return {"points": pts, "registered_classes": {p: r["samples"][str(p)]["total"] for p in pts},
            "log_handlers": {p: r["samples"][str(p)]["log_handlers"] for p in pts}}


if __name__ == "__main__" and "--measure-master" in sys.argv:
    import logging
    logging.disable(logging.CRITICAL)
    _real = sys.stdout
    sys.stdout = sys.stderr
    _out = measure_master(json.load(sys.stdin))
    sys.stdout = _real
    sys.stdout.write(json.dumps(_out))
    sys.exit(0)


def master_oracle(ck, thorough):
    """C18, queue master: no per-job residue in the master after succeeding AND failing jobs."""
    pts = [6, 18, 54] if thorough else [6, 12, 24]
    r, err = core.run_impl("props/c18.py", args=["--measure-master"], input_obj=pts, timeout=240)
    if r is None:
        ck.corr_problem("queue-master measurement did not complete", str(err)[-1200:])
        return None
    if r.get("status") != "ok" or len(r["samples"]) != len(pts):
        ck.corr_problem("queue-master measurement failed: %s" % r.get("status"), r.get("tb", ""))
        return r
    a, b = str(pts[-2]), str(pts[-1])
    sa, sb = r["samples"][a], r["samples"][b]
    rep = {"kind": "queue-master", "points": pts, "samples": r["samples"], "jobs": "alternating [source, multiply] and [source, divide by 0]"}
    if sb["pending_futures"] > sa["pending_futures"]:
        ck.fail_input("C18:master-pending-futures-growth", "the master's pending_futures table grows with the number of completed jobs: "
                      "%d after %s jobs, %d after %s jobs (half of them fail on the worker)" % (sa["pending_futures"], a, sb["pending_futures"], b), rep)
    for tname in sorted(sb.get("census") or {}):
        grow = sb["census"][tname] - (sa.get("census") or {}).get(tname, 0)
        if grow >= max(3, (int(b) - int(a)) // 6):
            ck.fail_input("C18:live-object-growth:%s:queue-master" % tname, "live %s objects grow with the number of jobs handled by a long-lived "
                          "master and worker (succeeding, failing and rejected jobs): %d after %s jobs, %d after %s jobs"
                          % (tname, (sa.get("census") or {}).get(tname, 0), a, sb["census"][tname], b), dict(rep, samples=None))
    for cname in sorted(sb.get("containers") or {}):
        if cname not in ACCOUNTED_CONTAINERS and sb["containers"][cname] - (sa.get("containers") or {}).get(cname, 0) >= 3:
            ck.fail_input("C18:process-wide-container-growth:%s:queue-master" % cname, "the process-wide container %s grows with the number of jobs: %d after %s, %d after %s"
                          % (cname, (sa.get("containers") or {}).get(cname, 0), a, sb["containers"][cname], b), dict(rep, samples=None))
    for cname in sorted(sb.get("master_attrs") or {}):
        if sb["master_attrs"][cname] - (sa.get("master_attrs") or {}).get(cname, 0) >= 3:
            ck.fail_input("C18:master-table-growth:%s" % cname, "the master's table %s grows with the number of completed jobs: %d after %s, %d after %s"
                          % (cname, (sa.get("master_attrs") or {}).get(cname, 0), a, sb["master_attrs"][cname], b), dict(rep, samples=None))
    for fld in ("log_filters", "log_handlers"):
        if sa.get(fld) is not None and sb.get(fld) is not None and sb[fld] > sa[fld]:
            ck.fail_input("C18:logger-%s-growth:queue-master" % fld[4:], "the process-wide logger's %s grow with the number of jobs: %d after %s jobs, %d after %s"
                          % (fld[4:], sa[fld], a, sb[fld], b), dict(rep, samples=None))
    for cat in ("futures", "pipelines", "nodes", "processors"):
        if sb["inst"][cat] > sa["inst"][cat]:
            ck.fail_input("C18:live-instance-growth:%s:queue-master" % cat, "live %s instances grow with the number of completed jobs in a "
                          "long-lived master: %d after %s jobs, %d after %s jobs" % (cat, sa["inst"][cat], a, sb["inst"][cat], b), rep)
    return r


if __name__ == "__main__" and "--measure" in sys.argv:
    import logging
    logging.disable(logging.CRITICAL)
    _job = json.load(sys.stdin)
    _real = sys.stdout
    sys.stdout = sys.stderr          # anything the CLI prints must not corrupt the JSON result
    _out = measure(_job)
    sys.stdout = _real
    sys.stdout.write(json.dumps(_out))
    sys.exit(0)


# =====================================================================================================
# check side
from harness import core                                      # noqa: E402
from harness.core import cq_bool, cq_list, cq_nat, cq_pair, cq_str  # noqa: E402
from harness.lib import pipegen as pg                         # noqa: E402
from harness.translate import run_all                         # noqa: E402

HEADER = """From Coq Require Import List String Arith.
From SV Require Import Model.Registry Gen.RegistryGen.
Import ListNotations. Open Scope string_scope.
Definition cases : list ccase := [
%s
].
Eval vm_compute in bad_idx (case_ok facts) cases 0.
"""

ROLE = {"src": "RDataSource", "srcdef": "RDataSource", "csrc": "RDataSource", "psrc": "RPayloadSource",
        "mul": "ROperation", "muldef": "ROperation", "add": "ROperation", "square": "ROperation", "divide": "ROperation",
        "csum": "ROperation", "failing": "ROperation", "probe": "RProbe", "sink": "RDataSink", "sink0": "RDataSink",
        "psink": "RPayloadSink"}
CLASS_OBJECT_KINDS = ("ctxwrite", "badwrite", "failing")     # processors given as class objects: not expressible in YAML


def model_node(n):
    """pipegen descriptor -> (pref, role, processor class name, remaining factory arguments as text)"""
    k = n["k"]
    ident = lambda s: s.replace(".", "_")  # noqa: E731  (_sanitize_identifier)
    if k in pg.ELEM:
        ref, role, name = "PRegistered", ROLE[k], pg.ELEM[k][0].lstrip("@")
    elif k == "ctxwrite":
        ref, role, name = "PRegistered", "ROperation", "VerifCtxWrite_" + n["key"]
    elif k == "badwrite":
        ref, role, name = "PRegistered", "ROperation", "VerifBadWrite_" + n["key"]
    elif k == "rename":
        ref, role, name = "(PShorthand FRename)", "RContext", "Rename_%s_to_%s" % (ident(n["a"]), ident(n["b"]))
    elif k == "delete":
        ref, role, name = "(PShorthand FDelete)", "RContext", "Delete_%s" % ident(n["a"])
    elif k == "template":
        ref, role, name = "(PShorthand FTemplate)", "RContext", "Template_%s" % ident(n["out"])
    elif k == "slice":
        ref, role, name = "(PShorthand FSlice)", ROLE[n["elem"]], "SlicerFor" + pg.ELEM[n["elem"]][0]
    elif k == "sweep":
        ref, role, name = "PSweep", ROLE[n["elem"]], pg.ELEM[n["elem"]][0] + "ParametricSweep"
    else:
        raise ValueError(k)
    args = {a: b for a, b in n.items() if a not in ("cfg",)}
    key = hashlib.sha1(json.dumps(args, sort_keys=True, default=str).encode()).hexdigest()[:12]
    return ref, role, name, key


def node_coq(n):
    ref, role, name, key = model_node(n)
    return "(mkNode %s %s %s %s)" % (ref, role, cq_str(name), cq_str(key))


def counts_coq(reg):
    return cq_list([cq_pair(cq_str(k), cq_nat(v)) for k, v in sorted(reg.items())])


def obs_coq(runs, s, way):
    q = s.get("queue") if way in ("reused", "runspace", "fresh") else None
    jc = s.get("jobchannels") if way == "worker" else None
    return "(mkObs %s %s %s %s %s)" % (cq_nat(runs), counts_coq(s["reg"]), core.cq_opt(q, cq_nat), core.cq_opt(jc, cq_nat), cq_nat(s["live"]))


def case_coq(case, r):
    way = case["way"]
    start = dict(r["start"])
    if way == "fresh":
        start.pop("queue", None)
    obs = [obs_coq(int(p), r["samples"][p], way) for p in sorted(r["samples"], key=int)]
    start_obs = obs_coq(0, start, way if way != "fresh" else "none")
    return "(mkCase %s (mkConfig %s %s) %s %s %s %s %s)" % (
        WAY_COQ[way], cq_list([node_coq(n) for n in case["nodes"]]), cq_bool(case["traced"]),
        counts_coq(r["s0"]["reg"]), cq_nat(r["s0"]["live"]), start_obs,
        cq_list([cq_pair(cq_str(a), cq_str(b)) for a, b in r["run1_names"]]), cq_list(obs))


# ---- configurations -----------------------------------------------------------------------------------
def _sweep(elem, exprs, ckey=None):
    n = {"k": "sweep", "elem": elem, "vars": [["t", ["seq", [1, 2]]]], "exprs": exprs, "mode": "combinatorial", "broadcast": False}
    if ckey:
        n["ckey"] = ckey
    return n


F_C18_A = [{"k": "src", "cfg": {"value": 1}}, {"k": "mul", "cfg": {"factor": 2}}, {"k": "probe", "ckey": "k"},
           {"k": "rename", "a": "k", "b": "j"}, {"k": "sink0"}]
CORE = [
    ("F-C18-a 5-node pipeline (source, operation, probe->k, rename:k:j, sink)", F_C18_A, {}),
    ("single node (constant source)", [{"k": "csrc"}], {}),
    ("plain operations", [{"k": "src", "cfg": {"value": 2}}, {"k": "mul", "cfg": {"factor": 3}}, {"k": "add", "cfg": {"addend": 1}},
                          {"k": "square"}], {}),
    ("slices", [_sweep("src", [["value", ["var", "t"]]]), {"k": "slice", "elem": "mul", "cfg": {"factor": 2}},
                {"k": "slice", "elem": "probe", "ckey": "k"}, {"k": "csum"}], {}),
    ("sweeps", [_sweep("src", [["value", ["var", "t"]]]), {"k": "csum"}, _sweep("probe", [], "k"),
                _sweep("mul", [["factor", ["var", "t"]]]), {"k": "csum"}], {}),
    ("rename/delete/template with probes", [{"k": "src", "cfg": {"value": 1}}, {"k": "probe", "ckey": "k"},
                                            {"k": "rename", "a": "k", "b": "j"},
                                            {"k": "template", "segs": [["lit", "t_"], ["hole", "j"], ["lit", ".txt"]], "out": "path"},
                                            {"k": "delete", "a": "j"}, {"k": "sink"}], {}),
    ("payload source and sinks, parameter from context", [{"k": "psrc"}, {"k": "mul"}, {"k": "psink"}, {"k": "sink0"}], {"factor": 2}),
    ("class-object processor", [{"k": "src", "cfg": {"value": 1}}, {"k": "ctxwrite", "key": "k"}, {"k": "probe", "ckey": "j"}], {}),
    ("processors spelled package.module:Class", [{"k": "src", "cfg": {"value": 2}, "proc_name": "semantiva.examples.test_utils:FloatValueDataSource"},
                                                 {"k": "mul", "cfg": {"factor": 3}, "proc_name": "semantiva.examples.test_utils:FloatMultiplyOperation"},
                                                 {"k": "probe", "ckey": "k", "proc_name": "semantiva.examples.test_utils:FloatCollectValueProbe"}], {}),
]
TRACED = {0: ["reused", "fresh", "runspace"], 3: ["reused", "runspace"], 5: ["reused", "runspace"]}   # CORE index -> ways also measured traced


def yaml_able(nodes):
    return not any(n["k"] in CLASS_OBJECT_KINDS for n in nodes)


def nontrivial(nodes):
    """at least two nodes and at least one node whose instantiation creates more than the node class"""
    return len(nodes) >= 2 and any(model_node(n)[0] != "PRegistered" or model_node(n)[1] not in ("ROperation", "RProbe") for n in nodes)


def run_measure(job, timeout=900):
    out, err = core.run_impl("props/c18.py", args=["--measure"], input_obj=job, timeout=timeout)
    if out is None:
        return {"status": "driver failed: " + str(err)[-1500:], "samples": {}}
    return out


def make_cases(ck, rng, thorough):
    points = [1, 50, 150, 450] if thorough else [1, 10, 30, 90]
    cases = []

    def add(label, nodes, ctx0, way, traced, pts, core_case):
        if way == "runspace" and not yaml_able(nodes):
            return
        cases.append({"label": label, "nodes": nodes, "ctx0": ctx0, "way": way, "traced": traced, "points": pts, "core": core_case})
    # corpus first (stored failing inputs)
    cdir = os.path.join(core.ROOT, "corpus", "C18")
    corpus_nodes = []
    for fn in sorted(os.listdir(cdir)) if os.path.isdir(cdir) else []:
        c = json.load(open(os.path.join(cdir, fn)))
        corpus_nodes.append(c["nodes"])
        for way in c.get("ways", WAYS):
            # the quick tier's one 150-run point is taken on the stored failing input
            add("corpus:" + fn, c["nodes"], c.get("ctx0", {}), way, c.get("traced", False),
                points if thorough else [1, 10, 30, 90, 150], True)
    for i, (label, nodes, ctx0) in enumerate(CORE):
        for way in WAYS:
            if nodes not in corpus_nodes:
                add(label, nodes, ctx0, way, False, points, True)
        for way in TRACED.get(i, []):
            add(label + " (traced)", nodes, ctx0, way, True, points, True)
    # generated pipelines (mostly valid generator of pipegen; kept when they start from no data and run to completion)
    stats, want, tries, kept = {}, (40 if thorough else 6), 0, 0
    seen = set()
    pg.setup_impl()
    while kept < want and tries < want * 40:
        tries += 1
        nodes, data0, need = pg.gen_pipeline(rng, stats, maxlen=(10 if thorough else 7))
        if data0 is not None or len(nodes) < 2 or any(n["k"] in ("badwrite", "failing") for n in nodes):
            continue
        ctx0 = pg.gen_ctx(rng, need=need)
        key = json.dumps([nodes, ctx0], sort_keys=True, default=str)
        if key in seen or not nontrivial(nodes):
            continue
        seen.add(key)
        nodes = json.loads(json.dumps(nodes))       # tuples -> lists (what a replay file holds)
        try:
            out = pg.run_impl(nodes, None, ctx0)
        except Exception:  # noqa
            continue
        if out[0] != "done":
            continue
        kept += 1
        ways = WAYS if thorough or kept <= 3 else [WAYS[kept % 4], WAYS[(kept + 1) % 4]]
        for way in ways:
            add("generated#%d" % kept, nodes, ctx0, way, (thorough and kept % 5 == 0 and way != "worker"), points, False)
    ck.notes["generator_distribution"] = dict(sorted(stats.items()))
    ck.notes["generated_pipelines_kept"] = "%d of %d draws (no initial data, >= 2 nodes, ran to completion once in the harness process)" % (kept, tries)
    return cases


def oracle(ck, case, r, reported):
    """Direct oracle on the measured counts (does not use the model)."""
    pts = sorted(int(p) for p in r["samples"])
    smp = {int(p): v for p, v in r["samples"].items()}
    way = case["way"]
    replay = {"way": way, "nodes": case["nodes"], "ctx0": case["ctx0"], "traced": case["traced"], "points": pts,
              "configuration": [pg.node_impl_repr(n) for n in case["nodes"]],
              "registered_classes": {p: smp[p]["total"] for p in pts},
              "queue_messages": {p: smp[p].get("queue") for p in pts}, "job_channels": {p: smp[p].get("jobchannels") for p in pts},
              "gc_objects": {p: smp[p]["gc"] for p in pts}, "live_instances": {p: smp[p].get("inst") for p in pts}}
    for p in pts:     # the census is large: keep only what changes
        pass
    pairs = [(a, b) for a in pts for b in pts if b == 3 * a and a > 1]     # after warm-up: N >= 10 (quick) / 50 (thorough)
    found = []
    for a, b in pairs:
        if smp[b]["total"] > smp[a]["total"]:
            found.append(("C18:registry-growth:" + WAY_SIG[way],
                          "registered component classes grow with the number of runs (%s): %d after run %d, %d after run %d (+%.2f per run)"
                          % (WAY_SIG[way], smp[a]["total"], a, smp[b]["total"], b, (smp[b]["total"] - smp[a]["total"]) / (b - a))))
        if way in ("reused", "runspace") and smp[a].get("queue") is not None and smp[b]["queue"] > smp[a]["queue"]:
            found.append(("C18:transport-queue-growth:reused-pipeline",
                          "messages retained by the reused Pipeline object's transport grow with the number of runs (%s): %d after run %d, %d after run %d"
                          % (WAY_SIG[way], smp[a]["queue"], a, smp[b]["queue"], b)))
        if way == "worker" and smp[b].get("jobchannels", 0) > smp[a].get("jobchannels", 0):
            found.append(("C18:transport-channel-growth:queue-worker",
                          "channel entries of the worker's job transport grow with the number of jobs although every message was consumed: "
                          "%d after job %d, %d after job %d" % (smp[a]["jobchannels"], a, smp[b]["jobchannels"], b)))
        ia, ib = smp[a].get("inst"), smp[b].get("inst")
        if ia and ib:
            # ("components" / "loggers" are recorded but not judged here: data objects inside the retained messages (F-C18-b) and the
            #  loggers of instances stored on registered classes (F-C18-a) are consequences of the known findings; what registered
            #  classes pin through CLOSURES is judged by the census below)
            cats = ["nodes", "processors", "pipelines", "drivers", "futures"] + (["messages"] if way in ("fresh", "worker") else [])
            for cat in cats:
                if ib.get(cat, 0) > ia.get(cat, 0):
                    found.append(("C18:live-instance-growth:%s:%s" % (cat, WAY_SIG[way]),
                                  "live %s instances grow with the number of runs (%s): %d after run %d, %d after run %d"
                                  % (cat, WAY_SIG[way], ia[cat], a, ib[cat], b)))
        ka, kb = smp[a].get("containers"), smp[b].get("containers")
        if ka is not None and kb is not None:
            for cname in sorted(kb):
                if cname in ACCOUNTED_CONTAINERS:
                    continue
                if kb[cname] - ka.get(cname, 0) >= max(3, (b - a) // 4):
                    found.append(("C18:process-wide-container-growth:%s:%s" % (cname, WAY_SIG[way]),
                                  "the process-wide container %s grows with the number of runs (%s): %d entries after run %d, %d after run %d"
                                  % (cname, WAY_SIG[way], ka.get(cname, 0), a, kb[cname], b)))
        ca, cb = smp[a].get("census"), smp[b].get("census")
        if ca is not None and cb is not None:
            for tname in sorted(cb):
                grow = cb[tname] - ca.get(tname, 0)
                if grow >= max(3, (b - a) // 4):
                    found.append(("C18:live-object-growth:%s:%s" % (tname, WAY_SIG[way]),
                                  "live %s objects (not held by registered classes, not queued in a transport) grow with the number of runs (%s): "
                                  "%d after run %d, %d after run %d" % (tname, WAY_SIG[way], ca.get(tname, 0), a, cb[tname], b)))
        stable = smp[b]["total"] == smp[a]["total"] and smp[b].get("queue") == smp[a].get("queue") and \
            smp[b].get("jobchannels") == smp[a].get("jobchannels")
        if stable and smp[b]["gc"] - smp[a]["gc"] > (b - a):        # more than one object per run with nothing modelled growing
            found.append(("C18:gc-objects-growth:" + WAY_SIG[way],
                          "gc-tracked objects grow although registry and queues are stable: %d after run %d, %d after run %d"
                          % (smp[a]["gc"], a, smp[b]["gc"], b)))
    for sig, what in found:
        if sig not in reported:
            reported.add(sig)
            ck.fail_input(sig, what, replay)
    return found


def run(ck):
    rng = random.Random(ck.seed * 7919 + 18)
    thorough = ck.tier == "thorough"
    gen = run_all(["registry"])
    ck.build_models(["Model/Registry.v", "Gen/RegistryGen.v"])
    proved = ck.prove(gen_results=gen)
    if thorough and proved:
        ck.coqchk()
    ck.notes["queue_master"] = master_oracle(ck, thorough)
    if isinstance(ck.notes["queue_master"], dict):
        for smp_ in (ck.notes["queue_master"].get("samples") or {}).values():
            smp_.pop("census", None)          # large; the oracle has judged it
            smp_.pop("containers", None)
    ck.notes["repeated_launches"] = launches_oracle(ck, thorough)
    ck.notes["failing_runs"] = failures_oracle(ck, thorough)
    facts = None
    try:
        from harness.translate import registry as tr
        a = tr.analyse()
        facts = {"registers": a["facts"]["registers"], "inst_in_execute": a["facts"]["inst_in_execute"],
                 "memo": a["memo"], "consumed": a["facts"]["consumed"], "chan_removed": a["facts"]["chan_removed"],
                 "trace_resolves": a["facts"]["trace_resolves"], "adapter_classes": a["adapters"], "node_classes": a["nodecls"]}
    except Exception as ex:  # noqa  (already recorded by run_all)
        facts = {"error": str(ex)}
    ck.notes["facts_read_from_source"] = facts

    cases = make_cases(ck, rng, thorough)
    ck.log("measuring %d (configuration, way, traced) cases, each in a fresh subprocess" % len(cases))
    with ThreadPoolExecutor(max_workers=min(8, core.NPROC)) as ex:
        results = list(ex.map(lambda c: run_measure({k: c[k] for k in ("way", "nodes", "ctx0", "traced", "points")}), cases))

    ok_cases, dropped = [], {}
    for c, r in zip(cases, results):
        if r.get("status") != "ok" or len(r.get("samples", {})) != len(set(c["points"])) or "run1_names" not in r:
            why = r.get("status", "?")
            if c["core"]:
                ck.corr_problem("measurement of a core configuration failed: %s / %s" % (c["label"], c["way"]),
                                why + "\n" + r.get("tb", ""), case={k: c[k] for k in ("label", "way", "traced")})
            dropped[c["way"]] = dropped.get(c["way"], 0) + 1
            continue
        ok_cases.append((c, r))
    for way in WAYS:
        if not any(c["way"] == way for c, _ in ok_cases):
            ck.corr_problem("no successful measurement for way " + way, json.dumps(dropped))

    # ---- correspondence (inside Coq)
    shard = 40
    texts = [HEADER % ";\n".join(case_coq(c, r) for c, r in ok_cases[i:i + shard]) for i in range(0, len(ok_cases), shard)]
    per, errs = core.mismatches("C18", texts, timeout=1200) if texts else ([], [])
    for k_, rc, out in errs:
        ck.corr_problem("correspondence shard %d did not evaluate (rc=%s)" % (k_, rc), out)
    bad = []
    for k_, ls in enumerate(per):
        if ls is not None:
            bad += [k_ * shard + b for b in ls[0]]
    for b in bad[:6]:
        c, r = ok_cases[b]
        ck.corr_problem("model and implementation disagree on registry / queue / live counts: %s / %s%s"
                        % (c["label"], c["way"], " traced" if c["traced"] else ""),
                        json.dumps({"nodes": [pg.node_impl_repr(n) for n in c["nodes"]], "s0": r["s0"]["reg"], "start": r["start"],
                                    "run1_names": r["run1_names"],
                                    "samples": {p: {x: y for x, y in v.items() if x != "gc"} for p, v in r["samples"].items()}})[:3000],
                        case={"label": c["label"], "way": c["way"], "traced": c["traced"]})

    # ---- direct oracle
    reported = set()
    per_way = {}
    for c, r in ok_cases:
        found = oracle(ck, c, r, reported)
        d = per_way.setdefault(c["way"], {"cases": 0, "growing": 0})
        d["cases"] += 1
        d["growing"] += 1 if found else 0
    ck.notes["oracle_cases_with_growth_per_way"] = per_way

    # ---- gc population: measured only
    gcrep = []
    for c, r in ok_cases:
        pts = sorted(int(p) for p in r["samples"])
        a, b = pts[1], pts[-1]
        sa, sb = r["samples"][str(a)], r["samples"][str(b)]
        dcls = sb["total"] - sa["total"]
        gcrep.append({"case": "%s / %s%s" % (c["label"], c["way"], " traced" if c["traced"] else ""), "runs": [a, b],
                      "gc_objects": [sa["gc"], sb["gc"]], "gc_objects_per_run": round((sb["gc"] - sa["gc"]) / (b - a), 2),
                      "classes_per_run": round(dcls / (b - a), 2),
                      "gc_objects_per_registered_class": round((sb["gc"] - sa["gc"]) / dcls, 1) if dcls else None})
    ck.notes["gc_population_measured_only"] = {
        "what": "len(gc.get_objects()) after gc.collect(); belongs to CPython's allocator/GC, NOT modelled (level proof covers registry / queue / "
                "job channels / live classes; this block is a measurement)", "per_case": gcrep[:24]}

    agree = len(ok_cases) - len(bad)
    ck.cov["evaluations"] = len(ok_cases)
    ck.cov["traces_validated_against_impl"] = agree
    distinct = {json.dumps([c["nodes"], c["way"], c["traced"]], sort_keys=True) for c, _ in ok_cases if nontrivial(c["nodes"])}
    ck.cov["distinct_nontrivial"] = len(distinct)
    ck.cov["rule"] = ("one evaluation = one (configuration, way of repeating, traced?) measured in its own subprocess and compared with the model "
                      "at the start sample and after %s repetitions (category counts, queue, job channels, live classes, names registered by run 1, "
                      "closed form); non-trivial = >= 2 nodes and some node that creates more than its node class (adapter, shorthand, sweep); "
                      "dropped (did not run this way): %s" % (sorted({p for c, _ in ok_cases for p in c["points"]}), dropped))
    ck.cov["samples"] = [{"label": c["label"], "way": c["way"], "traced": c["traced"],
                          "configuration": [pg.node_impl_repr(n) for n in c["nodes"]],
                          "registered_classes": {p: v["total"] for p, v in r["samples"].items()},
                          "queue": {p: v.get("queue") for p, v in r["samples"].items()},
                          "job_channels": {p: v.get("jobchannels") for p, v in r["samples"].items()}} for c, r in ok_cases[:8]]
    kinds = {}
    for c, _ in ok_cases:
        for n in c["nodes"]:
            kk = n["k"] + (":" + n["elem"] if "elem" in n else "")
            kinds[kk] = kinds.get(kk, 0) + 1
    ck.notes["input_distribution"] = {"cases_per_way": {w: sum(1 for c, _ in ok_cases if c["way"] == w) for w in WAYS},
                                      "traced_cases": sum(1 for c, _ in ok_cases if c["traced"]), "node_kinds": dict(sorted(kinds.items())),
                                      "pipeline_lengths": sorted({len(c["nodes"]) for c, _ in ok_cases})}
    ck.cov["trusted_base"] = TRUSTED
    ck.log("correspondence: %d/%d cases agree; oracle: %s; dropped %s" % (agree, len(ok_cases), sorted(reported), dropped))


def replay(obj):
    r = obj["replay"]
    job = {k: r[k] for k in ("way", "nodes", "ctx0", "traced", "points")}
    out = run_measure(job)
    print("configuration:", json.dumps(r.get("configuration")))
    print("way:", r["way"], "traced:", r["traced"], "status:", out.get("status"))
    for p in sorted(out.get("samples", {}), key=int):
        s = out["samples"][p]
        print("after run %4s: registered classes %6d   queue %s   job channels %s   live classes %d   gc objects %d"
              % (p, s["total"], s.get("queue"), s.get("jobchannels"), s["live"], s["gc"]))
    print("recorded: registered classes", r.get("registered_classes"), "queue", r.get("queue_messages"), "job channels", r.get("job_channels"))
    return 0


TRUSTED = [
    "Coq 8.16.1 kernel (coqc), vm_compute; no native_compute",
    "model: coq/Model/Registry.v (registry keyed by component_type, class factories as events, memo tables, queue / job channel counters)",
    "translator harness/translate/registry.py (registration in the metaclass, node instantiation inside execute, lru_cache decorators on the "
    "seven class factories, role dispatch table with class-creation call counts, traced symbol resolution, publish path, channel removal)",
    "measurement driver in harness/props/c18.py: a fresh interpreter per case; the run-space way wraps Pipeline.__init__/process in that interpreter "
    "to sample between runs of one `semantiva run` launch; the queue-worker way runs the real worker_loop and publishes jobs.<id>.cfg / drains "
    "jobs.<id>.status itself (what QueueSemantivaOrchestrator.run_forever does, minus its 0.2 s polling)",
    "harness knowledge of generated class names (SlicerFor<X>, <X>ParametricSweep, Rename_a_to_b, Delete_a, Template_out) used to state expected names",
    "modelled not verified: Python dict/list semantics of the registry, class liveness via __subclasses__ (weak references)",
    "NOT modelled: len(gc.get_objects()) (CPython allocator/GC) -- measured and reported only",
]
FINISH = {"level": "proof", "assumptions": [
    "every node of the configuration runs to completion in each repetition (failing runs publish fewer messages; configurations are screened)",
    "the gc-tracked object population is measured only (not part of the proved statement)",
    "ModelFittingContextProcessor / with_context_key class factories of the ContextProcessor branch are outside the generated configurations"]}
