"""Deterministic thread scheduling of real /repo code (sys.settrace baton).  See baton.py.
c14_driver.py is the transport-specific driver (scenarios, model-event mapping, direct oracle)."""
