"""Deterministic baton scheduler for real threads running unmodified library code.

Only the thread that holds the baton runs.  A thread gives the baton back at *switch points*, which are
reported by a `sys.settrace` tracer built from a `PointMap` (which frames, which line / call events, which
line ranges are bodies of `with <lock>:` and therefore never switch points).  At every switch point where
alternatives are allowed a *decision* is taken: follow the given choice prefix, otherwise keep running the
current thread (or, when it has finished, the lowest live thread).  All decisions are recorded together with
the live alternatives so that a driver can enumerate schedules up to a preemption bound (stateless DFS).

Safety of the machinery itself:
  * a thread is never parked while the PointMap says it is inside a lock body (so a parked thread holds no
    real lock of the code under test and the baton holder can never block on one);
  * a watchdog in `Execution.run` turns "no progress for `stall_s` seconds" into status "stall": the baton
    is abolished (every thread runs freely), threads are daemons and are joined with a timeout.  Nothing
    in here waits without a timeout.
"""
from __future__ import annotations

import sys
import threading
import time


class PointMap:
    """Which events of which frames are switch points.  Built from harness.translate.transport.analyse()."""

    def __init__(self, path, funcs, lam=None):
        self.path = path
        self.funcs = {}
        for name, f in funcs.items():
            self.funcs[name] = {
                "first": f["first"], "last": f["last"],
                "events": {int(k): v for k, v in f["events"].items()},
                "headers": [tuple(h) for h in f["headers"]],
                "lock_bodies": [tuple(b) for b in f["lock_bodies"]],
            }
        self.lam = lam  # {"line": n, "body_line": n} or None

    def classify(self, code):
        if code.co_filename != self.path:
            return None
        f = self.funcs.get(code.co_name)
        if f is not None and f["first"] <= code.co_firstlineno <= f["last"]:
            return ("func", code.co_name, f)
        if self.lam is not None and code.co_name == "<lambda>" and code.co_firstlineno == self.lam["line"]:
            return ("lambda", "<lambda>", None)
        return None


class Execution:
    def __init__(self, pmap, prefix=(), all_points=False, stall_s=3.0, preempt_events=None):
        self.pmap = pmap
        # events before which another thread may be scheduled; None = every non-Tau event
        self.preempt_events = set(preempt_events) if preempt_events is not None else None
        self.prefix = list(prefix)
        self.all_points = all_points
        self.stall_s = stall_s
        self.cv = threading.Condition()
        self.current = None
        self.abort = False
        self.alive = set()
        self.parked = {}
        self.in_lock = {}
        self.trace = []        # (tid, event, func, line) in execution order: the step that starts at that point
        self.decisions = []    # dicts: cur, alive, chosen, preempt
        self.errors = {}
        self.progress = 0
        self.status = "ok"

    # ---- decisions -------------------------------------------------------
    def _decide(self, cur, free):
        """Called with cv held.  cur = thread arriving at a point (None if it just finished / initial)."""
        alive = sorted(self.alive)
        if not alive:
            self.current = None
            return
        default = cur if (cur is not None and cur in self.alive) else alive[0]
        if len(alive) == 1:
            self.current = alive[0]
            return
        i = len(self.decisions)
        chosen = default
        if i < len(self.prefix) and self.prefix[i] in self.alive:
            chosen = self.prefix[i]
        self.decisions.append({"cur": None if free else cur, "alive": alive, "chosen": chosen,
                               "preempt": (not free) and chosen != cur})
        self.current = chosen

    def _arrive(self, tid, point):
        """Thread `tid` is about to execute the statement at `point`; may hand the baton over."""
        with self.cv:
            if self.abort:
                self.trace.append((tid,) + point)
                return
            self.progress += 1
            self.parked[tid] = point
            if self.all_points or (point[0] != "Tau" if self.preempt_events is None else point[0] in self.preempt_events):
                self._decide(tid, False)
                self.cv.notify_all()
            while self.current != tid and not self.abort:
                self.cv.wait(0.5)
            self.parked.pop(tid, None)
            self.trace.append((tid,) + point)
            self.progress += 1

    # ---- tracing ---------------------------------------------------------
    def _global_tracer(self, tid):
        pm = self

        def make_local(f):
            prev = [None]

            def local(frame, event, arg):
                if event != "line":
                    return local
                L = frame.f_lineno
                p = prev[0]
                prev[0] = L
                for (w, b0, b1) in f["lock_bodies"]:
                    if b0 <= L <= b1:
                        pm.in_lock[tid] = True
                        return local
                    if L == w and p is not None and b0 <= p <= b1:
                        return local          # __exit__ of the with: the lock is still held
                pm.in_lock[tid] = False
                if p is not None:
                    for (a, b) in f["headers"]:
                        if a <= p <= b and a <= L <= b and (a != b):
                            return local      # continuation line of the same statement
                ev = f["events"].get(L, "Tau")
                pm._arrive(tid, (ev, frame.f_code.co_name, L))
                return local
            return local

        def lam_local(frame, event, arg):
            if event == "line" and not pm.in_lock.get(tid):
                pm._arrive(tid, ("Store", "<lambda>", frame.f_lineno))
            return lam_local

        def g(frame, event, arg):
            if event != "call":
                return None
            c = pm.pmap.classify(frame.f_code)
            if c is None:
                return None
            if c[0] == "func":
                return make_local(c[2])
            if not pm.in_lock.get(tid):
                pm._arrive(tid, ("FactoryCall", "<lambda>", frame.f_lineno))
            return lam_local
        return g

    # ---- running ---------------------------------------------------------
    def run(self, bodies):
        n = len(bodies)
        self.alive = set(range(n))
        started = [0]
        threads = []

        def body(tid, fn):
            with self.cv:
                started[0] += 1
                self.parked[tid] = ("Tau", "<start>", 0)
                self.cv.notify_all()
                while self.current != tid and not self.abort:
                    self.cv.wait(0.5)
                self.parked.pop(tid, None)
                self.progress += 1
            sys.settrace(self._global_tracer(tid))
            try:
                fn()
            except BaseException as ex:  # noqa: report, never swallow
                self.errors[tid] = "%s: %s" % (type(ex).__name__, ex)
            finally:
                sys.settrace(None)
                with self.cv:
                    self.alive.discard(tid)
                    self.progress += 1
                    if not self.abort:
                        self._decide(None, True)
                    self.cv.notify_all()

        for tid, fn in enumerate(bodies):
            t = threading.Thread(target=body, args=(tid, fn), daemon=True, name="baton-%d" % tid)
            threads.append(t)
            t.start()
        deadline_start = time.time() + 10.0
        with self.cv:
            while started[0] < n and time.time() < deadline_start:
                self.cv.wait(0.2)
            if started[0] < n:
                self.status = "stall"
                self.abort = True
            else:
                self._decide(None, True)
            self.cv.notify_all()
            last, last_t = self.progress, time.time()
            while self.alive:
                self.cv.wait(0.1)
                if self.progress != last:
                    last, last_t = self.progress, time.time()
                elif time.time() - last_t > self.stall_s:
                    self.status = "stall"
                    self.abort = True
                    self.cv.notify_all()
                    break
        leaked = 0
        for t in threads:
            t.join(2.0 if self.status == "ok" else 1.0)
            if t.is_alive():
                leaked += 1
        if leaked:
            self.status = "deadlock"
        if self.errors and self.status == "ok":
            self.status = "error"
        return {"status": self.status, "trace": list(self.trace), "decisions": list(self.decisions),
                "errors": dict(self.errors), "leaked_threads": leaked,
                "chosen": [d["chosen"] for d in self.decisions]}


def enumerate_schedules(run_one, bound, max_execs=None, deadline=None):
    """Stateless DFS over choice prefixes.  run_one(prefix) -> result dict of Execution.run (plus anything).
    Yields (prefix, result).  Preemption = choosing a thread other than the still-live arriving one."""
    stack = [[]]
    n = 0
    while stack:
        if max_execs is not None and n >= max_execs:
            return
        if deadline is not None and time.time() > deadline:
            return
        prefix = stack.pop()
        res = run_one(prefix)
        n += 1
        yield prefix, res
        if res["status"] != "ok" and res["status"] != "error":
            continue
        decs = res["decisions"]
        used = 0
        new = []
        for i, d in enumerate(decs):
            if i >= len(prefix):
                for alt in d["alive"]:
                    if alt == d["chosen"]:
                        continue
                    cost = used + (1 if d["cur"] is not None else 0)
                    if cost <= bound:
                        new.append(res["chosen"][:i] + [alt])
            if d["preempt"]:
                used += 1
        stack.extend(reversed(new))
    res_done = True  # noqa: F841
