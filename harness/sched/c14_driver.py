"""C14 driver: runs InMemorySemantivaTransport scenarios of the *real* code under the baton scheduler.

Run as a script (fresh interpreter, PYTHONPATH=<repo>:/verif):  JSON job on stdin, JSON result on stdout.
job = {"scenario": S, "bound": 2, "all_points": false, "max_execs": N, "budget_s": T}      -> enumerate
    | {"scenario": S, "schedule": [tids], "all_points": false}                             -> one execution
S   = {"name": str, "pre": [channels created (and emptied) before the threads start],
       "threads": [{"pub": [channel, ...]} | {"sub": pattern}, ...]}
Message payload of publisher i's k-th publish to channel c is [i, k, c].

Each execution yields
  trace     : [[tid, event]]  model-level events (Tau dropped), tid = index in S.threads
  delivered : per thread, the payloads its subscription yielded (publishers: [])
  left      : [[channel, [payloads]]] contents of transport._queues after all threads finished (dict order)
  drained   : payloads a final `subscribe("*")` returns through the public API
  oracle    : violations found by the direct oracle [(signature, what)]
"""
from __future__ import annotations

import fnmatch as _fnmatch
import json
import os
import sys
import time


def load(repo=None):
    from harness import core
    from harness.translate import transport as tr
    repo = repo or core.REPO
    try:
        facts = tr.analyse(repo)
    except Exception:  # reshaped transport: statement-level points, critical sections = with bodies
        facts = tr.analyse_generic(repo)
    import semantiva.execution.transport.in_memory as mod
    if os.path.realpath(mod.__file__) != os.path.realpath(facts["path"]):
        raise RuntimeError("imported %s but analysed %s (PYTHONPATH does not select the repo under test)"
                           % (mod.__file__, facts["path"]))
    from harness.sched.baton import PointMap
    pmap = PointMap(mod.__file__, facts["funcs"], facts["lambda"])
    return mod, facts, pmap


def published(scn):
    out = []
    for i, t in enumerate(scn["threads"]):
        for k, c in enumerate(t.get("pub", [])):
            out.append([i, k, c])
    return out


SHARED = ("Lookup", "FactoryCall", "Store", "Append", "For", "Pop")   # steps that touch shared state


def execute(mod, pmap, scn, prefix, all_points=False, stall_s=3.0, points="events"):
    from harness.sched.baton import Execution
    tr = mod.InMemorySemantivaTransport()
    tr.connect()
    for c in scn.get("pre", []):
        tr.publish(c, "warm", {})
        list(tr.subscribe(c))
    n = len(scn["threads"])
    delivered = [[] for _ in range(n)]
    bodies = []
    for i, t in enumerate(scn["threads"]):
        if "pub" in t:
            def body(i=i, chans=t["pub"]):
                for k, c in enumerate(chans):
                    tr.publish(c, [i, k, c], {})
        else:
            def body(i=i, pat=t["sub"]):
                for m in tr.subscribe(pat):
                    delivered[i].append(m.data)
        bodies.append(body)
    ex = Execution(pmap, prefix, all_points=all_points or points == "lines", stall_s=stall_s,
                   preempt_events=SHARED if points == "shared" else None)
    res = ex.run(bodies)
    res["delivered"] = delivered
    if res["status"] in ("ok", "error"):
        res["left"] = [[c, [m.data for m in list(q)]] for c, (q, _l) in list(tr._queues.items())]
        res["drained"] = [m.data for m in tr.subscribe("*")]
    else:
        res["left"], res["drained"] = [], []
    res["events"] = [[tid, ev] for (tid, ev, fn, line) in res["trace"] if ev != "Tau"]
    res["n_tau"] = sum(1 for x in res["trace"] if x[1] == "Tau")
    res["points"] = [[tid, ev, line] for (tid, ev, fn, line) in res["trace"]]
    del res["trace"]
    res["oracle"] = oracle(scn, res)
    return res


def _key(p):
    return (p[0], p[1], p[2])


def oracle(scn, res):
    """Direct oracle on the real observables; independent of the Coq model."""
    bad = []
    if res["status"] == "error":
        for tid, e in sorted(res["errors"].items()):
            bad.append(("C14:thread-exception:" + e.split(":")[0], "thread %s raised %s" % (tid, e)))
    if res["status"] not in ("ok", "error"):
        return bad
    pub = published(scn)
    got = [p for d in res["delivered"] for p in d] + list(res["drained"])
    keys = [_key(p) for p in got if isinstance(p, list)]
    seen, dups = set(), []
    for k in keys:
        if k in seen:
            dups.append(k)
        seen.add(k)
    if dups:
        bad.append(("C14:duplicate-delivery", "payload(s) %s delivered more than once" % dups[:3]))
    lost = [p for p in pub if _key(p) not in seen]
    if lost:
        fresh = [p for p in lost if p[2] not in scn.get("pre", [])]
        sig = "C14:lost-message:first-publish-race" if fresh else "C14:lost-message:existing-channel"
        bad.append((sig, "published %s never delivered (delivered+drained=%d of %d)" % (lost[:3], len(seen), len(pub))))
    extra = [k for k in seen if list(k) not in pub]
    if extra:
        bad.append(("C14:unpublished-delivery", "delivered payloads never published: %s" % extra[:3]))
    for i, t in enumerate(scn["threads"]):
        if "sub" in t:
            for p in res["delivered"][i]:
                if not _fnmatch.fnmatch(p[2], t["sub"]):
                    bad.append(("C14:foreign-channel-delivered", "subscription %r received %s" % (t["sub"], p)))
                    break
    # a message sits in (and is delivered from) the queue of the channel it was published to
    for c, items in res.get("left", []):
        wrong = [p for p in items if isinstance(p, list) and len(p) >= 3 and p[2] != c]
        if wrong:
            bad.append(("C14:misrouted-message", "queue of channel %r holds message(s) published on another channel: %s" % (c, wrong[:3])))
            break
    seqs = [d + list(res["drained"]) for d in res["delivered"] if d] + [list(res["drained"])]
    for s in seqs:
        last = {}
        for p in s:
            k = (p[0], p[2])
            if k in last and last[k] >= p[1]:
                bad.append(("C14:order-violated", "publisher %d channel %s: #%d received after #%d" % (p[0], p[2], p[1], last[k])))
                break
            last[k] = p[1]
    return bad


def enumerate_job(job):
    from harness.sched.baton import enumerate_schedules
    mod, facts, pmap = load()
    scn = job["scenario"]
    allp = bool(job.get("all_points"))
    deadline = time.time() + float(job.get("budget_s", 60))
    execs = []
    counts = {"ok": 0, "stall": 0, "deadlock": 0, "error": 0}
    complete = True
    seen = set()

    def run_one(prefix):
        return execute(mod, pmap, scn, prefix, all_points=allp, stall_s=float(job.get("stall_s", 3.0)),
                       points=job.get("points", "events"))

    n = 0
    gen = enumerate_schedules(run_one, int(job.get("bound", 2)), job.get("max_execs"), deadline)
    for prefix, res in gen:
        n += 1
        counts[res["status"]] = counts.get(res["status"], 0) + 1
        rec = {"schedule": res["chosen"], "status": res["status"], "events": res["events"], "delivered": res["delivered"],
               "left": res["left"], "drained": res["drained"], "oracle": res["oracle"], "errors": res["errors"],
               "preemptions": sum(1 for d in res["decisions"] if d["preempt"]), "n_points": len(res["points"])}
        key = json.dumps([rec["events"], rec["delivered"], rec["left"], rec["status"]])
        if key in seen and not rec["oracle"] and rec["status"] == "ok":
            rec = {"schedule": rec["schedule"], "status": "ok", "dup": True, "preemptions": rec["preemptions"]}
        seen.add(key)
        execs.append(rec)
        if counts.get("deadlock", 0) >= 3:
            complete = False
            break
    if time.time() > deadline or (job.get("max_execs") and n >= job["max_execs"]):
        complete = False
    return {"scenario": scn, "executions": execs, "counts": counts, "complete": complete,
            "facts": {"atomic_create": facts["atomic_create"], "locked_ops": facts["locked_ops"]},
            "file": facts["path"]}


def single_job(job):
    mod, facts, pmap = load()
    res = execute(mod, pmap, job["scenario"], job["schedule"], all_points=bool(job.get("all_points")),
                  points=job.get("points", "events"))
    res["facts"] = {"atomic_create": facts["atomic_create"], "locked_ops": facts["locked_ops"]}
    res["file"] = facts["path"]
    res.pop("decisions", None)
    return res


def async_cancel_oracle(mod):
    """A consumer task iterates a subscription with `async for` and is cancelled after j steps of the event loop (every j up
    to completion).  Whatever was popped from the transport was handed to the consumer: delivered + still queued = published,
    nothing twice."""
    import asyncio
    out = []

    async def scenario(j, n):
        tr = mod.InMemorySemantivaTransport()
        tr.connect()
        pubs = []
        for k in range(n):
            ch = "jobs.%s.cfg" % "ab"[k % 2]
            tr.publish(ch, [0, k, ch], {})
            pubs.append((0, k, ch))
        got = []
        sub = tr.subscribe("jobs.*.cfg")

        async def consume():
            async for m in sub:
                got.append(tuple(m.data))
                await asyncio.sleep(0)          # the consumer's own work between two messages
        task = asyncio.ensure_future(consume())
        for _ in range(j):
            await asyncio.sleep(0)
            if task.done():
                break
        finished = task.done()
        task.cancel()
        try:
            await task
        except BaseException:  # noqa - CancelledError
            pass
        sub.close()
        rest = [tuple(m.data) for m in tr.subscribe("*")]
        return pubs, got, rest, finished
    n = 5
    for j in range(0, 4 * n + 4):
        loop = asyncio.new_event_loop()
        try:
            pubs, got, rest, finished = loop.run_until_complete(scenario(j, n))
        except Exception as ex:  # noqa
            out.append(("C14:async-iteration-fails", "async for over a subscription raised %r" % (ex,)))
            break
        finally:
            loop.close()
        seen = got + rest
        lost = [p for p in pubs if p not in seen]
        if lost:
            out.append(("C14:lost-message:async-consumer-cancelled",
                        "consumer task cancelled after %d event-loop steps: %d of %d published messages neither delivered nor left queued, first %s "
                        "(delivered %d, still queued %d)" % (j, len(lost), len(pubs), list(lost[0]), len(got), len(rest))))
            break
        if len(set(seen)) != len(seen):
            out.append(("C14:duplicate-delivery", "consumer task cancelled after %d event-loop steps: a message is seen twice" % j))
            break
        if finished:
            break
    return out


def sequential_job(job):
    """Single-threaded operation sequences (no scheduler): early-closing consumers, re-publication,
    later drains.  Direct oracle only: exactly-once and per-(publisher, channel) order."""
    import semantiva.execution.transport.in_memory as mod
    bad = []

    model_cases = []

    def run(name, ops, model=True):
        tr = mod.InMemorySemantivaTransport()
        tr.connect()
        got, k = [], 0
        pubs = []
        held = {}
        mops, nsub = [], [0]          # the same sequence as operations of Model/Subscription.v

        def new_sub(pat):
            sub = tr.subscribe(pat)
            mops.append(["open", pat])
            nsub[0] += 1
            return sub, nsub[0] - 1

        def advance(it, idx):
            mops.append(["next", idx])
            try:
                return next(it)
            except StopIteration:
                return None
        for op in ops:
            if op[0] == "pub":
                for _ in range(op[2]):
                    tr.publish(op[1], [0, k, op[1]], {})
                    pubs.append([0, k, op[1]])
                    mops.append(["pub", op[1]])
                    k += 1
            elif op[0] == "take":          # consume at most n messages of a pattern, then close the subscription
                sub, idx = new_sub(op[1])
                it = iter(sub)
                n = 0
                while n < op[2]:
                    m = advance(it, idx)
                    if m is None:
                        break
                    got.append(m.data)
                    n += 1
                sub.close()
                mops.append(["close", idx])
            elif op[0] == "open":          # take n messages and keep the subscription (its iterator) open
                held["sub"], held["idx"] = new_sub(op[1])
                held["it"] = iter(held["sub"])
                for _ in range(op[2]):
                    m = advance(held["it"], held["idx"])
                    if m is None:
                        break
                    got.append(m.data)
            elif op[0] == "mark-closed":   # close() the subscription but keep advancing its iterator (close inside a `for` body
                                           # without break; close() from another thread): nothing more may be consumed
                if held.get("sub") is None:
                    held["sub"], held["idx"] = new_sub(op[1])
                    held["it"] = iter(held["sub"])
                held["sub"].close()
                mops.append(["close", held["idx"]])
                for _ in range(op[2]):
                    m = advance(held["it"], held["idx"])
                    if m is None:
                        break
                    got.append(m.data)
            elif op[0] == "close":         # stop iterating and close the held subscription
                it, sub = held.pop("it", None), held.pop("sub", None)
                idx = held.pop("idx", None)
                if it is not None and hasattr(it, "close"):
                    it.close()
                if sub is not None:
                    sub.close()
                    mops.append(["close", idx])
            elif op[0] == "tclose":        # another participant of the shared in-process transport leaves (close), or (re)connects:
                                           # both are documented no-ops for the queued messages of everybody else
                getattr(tr, op[1])()
            elif op[0] == "drain":
                mops.append(["drain", op[1]])
                for m in tr.subscribe(op[1]):
                    got.append(m.data)
        if model and len(pubs) <= 60:
            model_cases.append({"name": name, "ops": mops, "delivered": [p[1] for p in got],
                                "left": [[c, [m.data[1] for m in list(q)]] for c, (q, _l) in list(tr._queues.items())]})
        keys = [tuple(p) for p in got]
        keyset = set(keys)
        if len(keyset) != len(keys):
            bad.append(("C14:duplicate-delivery", "%s: a message was delivered twice: %s" % (name, got[:20])))
        lost = [p for p in pubs if tuple(p) not in keyset]
        if lost:
            bad.append(("C14:lost-message:sequential", "%s: %d of %d published messages never delivered, first %s" % (name, len(lost), len(pubs), lost[:3])))
        last = {}
        for p in got:
            if p[2] in last and last[p[2]] >= p[1]:
                bad.append(("C14:order-violated", "%s: channel %s: #%d received after #%d (sequence %s)" % (name, p[2], p[1], last[p[2]], [x[1] for x in got][:40])))
                break
            last[p[2]] = p[1]

    # pattern routing: a subscription yields exactly the messages whose channel matches its pattern in the sense of
    # fnmatch (the documented "Unix shell-style patterns": *, ?, [seq], [!seq]); the others stay queued
    import fnmatch as _fn
    chans = ["jobs.1.cfg", "jobs.2.cfg", "jobs.3.cfg", "jobs.1.status", "jobs.12.cfg", "a", "ab", "a.b", "A", "x[1]", "data.s1", "data.c2",
             # names with characters that mean something in OTHER pattern languages (NATS, regular expressions, SQL): plain here
             "out.List<float>", "out.List<float64>", "out.List<float>.shape", "a>", "a>b", "t.%", "t.x", "q+", "q+1", "d.$", "d.$x", "p|q"]
    pats = ["jobs.[12].cfg", "jobs.[12].*", "jobs.[!1].cfg", "jobs.?.cfg", "jobs.??.cfg", "*.[sc]*", "[a-b]*", "a?", "?", "jobs.*.cfg", "jobs.1.cfg",
            "x[[]1]", "*", "data.[!s]?", "[!j]*", "jobs.[0-9].status", "nomatch", "*.cfg", "j*[g]",
            "out.List<float>", "a>", "jobs.>", "out.>", "t.%", "q+", "d.$", "p|q", "out.List<*>", ">", "a.b.>"]
    for pat in pats:
        tr = mod.InMemorySemantivaTransport()
        tr.connect()
        pubs = []
        for k in range(2):
            for c in chans:
                tr.publish(c, [0, k, c], {})
                pubs.append([0, k, c])
        got = [m.data for m in tr.subscribe(pat)]
        want = [p for p in pubs if _fn.fnmatch(p[2], pat)]
        if sorted(map(tuple, got)) != sorted(map(tuple, want)):
            missing = [p for p in want if p not in got]
            extra = [p for p in got if p not in want]
            bad.append(("C14:pattern-routing:%s" % ("matching-message-not-delivered" if missing else "foreign-channel-delivered"),
                        "subscribe(%r) over channels %s: %d of %d matching messages delivered; not delivered %s; foreign %s"
                        % (pat, chans, len(want) - len(missing), len(want), missing[:3], extra[:3])))
        rest = [m.data for m in tr.subscribe("*")]
        if sorted(map(tuple, got + rest)) != sorted(map(tuple, pubs)):
            bad.append(("C14:lost-message:sequential", "subscribe(%r) then drain: %d of %d messages seen" % (pat, len(got) + len(rest), len(pubs))))
    run("early close then republish", [("pub", "c", 3), ("take", "c", 1), ("pub", "c", 1), ("drain", "c")])
    run("early close, wildcard", [("pub", "a.x", 2), ("pub", "a.y", 2), ("take", "a.*", 1), ("pub", "a.x", 1), ("drain", "*")])
    run("two early closes", [("pub", "c", 4), ("take", "c", 1), ("take", "c", 1), ("pub", "c", 2), ("drain", "c")])
    run("take more than pending", [("pub", "c", 1), ("take", "c", 5), ("pub", "c", 2), ("take", "c", 1), ("drain", "*")])
    run("exact subscription on a channel created later", [("take", "c", 1), ("pub", "c", 2), ("drain", "c")])
    run("publish while a subscription that took one message is still open, then close",
        [("pub", "c", 3), ("open", "c", 1), ("pub", "c", 1), ("close",), ("drain", "c")])
    run("same with a wildcard subscription over two channels",
        [("pub", "a.x", 2), ("pub", "a.y", 2), ("open", "a.*", 1), ("pub", "a.x", 1), ("pub", "a.y", 1), ("close",), ("drain", "*")])
    run("open, take two, publish, close, publish, drain",
        [("pub", "c", 4), ("open", "c", 2), ("pub", "c", 1), ("close",), ("pub", "c", 1), ("drain", "c")])
    run("close() inside the loop body, iteration continues once", [("pub", "c", 4), ("open", "c", 1), ("mark-closed", "c", 2), ("close",), ("drain", "c")])
    run("close() before the first next()", [("pub", "c", 2), ("mark-closed", "c", 1), ("close",), ("drain", "c")])
    run("close() of a wildcard subscription mid-way", [("pub", "a.x", 2), ("pub", "a.y", 2), ("open", "a.*", 2), ("mark-closed", "a.*", 3), ("close",), ("drain", "*")])
    run("another participant closes the shared transport while messages are pending", [("pub", "c", 3), ("pub", "d", 2), ("tclose", "close"), ("drain", "*")])
    run("close() between a partial take and the drain", [("pub", "a.x", 3), ("take", "a.*", 1), ("tclose", "close"), ("pub", "a.x", 1), ("drain", "*")])
    run("connect() again while messages are pending", [("pub", "c", 2), ("tclose", "connect"), ("drain", "c")])
    # asynchronous consumption (`async for`) cancelled at every point where the consumer task can be suspended
    bad.extend(async_cancel_oracle(mod))
    # a backlog: many undelivered messages on one channel (a late consumer), two channels, a wildcard drain
    run("backlog of 70000 messages on one channel, late consumer", [("pub", "bulk", 70000), ("drain", "bulk")], model=False)
    run("backlog on two channels, wildcard drain", [("pub", "b.x", 9000), ("pub", "b.y", 9000), ("pub", "b.x", 10), ("drain", "b.*")], model=False)
    # random operation sequences of one consumer (every one ends with a full drain, so nothing may be lost)
    import random as _random
    rng = _random.Random(int(job.get("seed", 0)) * 7 + 3)
    chs, pats_ = ["a", "a.x", "a.y", "b", "jobs.1.cfg"], ["a", "a.*", "*", "a.?", "[ab]*", "jobs.[12].cfg", "b"]
    for t in range(int(job.get("random_sequences", 60))):
        ops, opened = [], False
        for _ in range(rng.randint(3, 10)):
            r = rng.random()
            if r < 0.4:
                ops.append(("pub", rng.choice(chs), rng.randint(1, 3)))
            elif r < 0.55:
                ops.append(("take", rng.choice(pats_), rng.randint(1, 3)))
            elif r < 0.7 and not opened:
                ops.append(("open", rng.choice(pats_), rng.randint(0, 2)))
                opened = True
            elif r < 0.85 and opened:
                ops.append(("mark-closed", "*", rng.randint(1, 2)))
            elif opened:
                ops.append(("close",))
                opened = False
            else:
                ops.append(("drain", rng.choice(pats_)))
        if opened:
            ops.append(("close",))
        ops.append(("drain", "*"))
        run("random sequence %d" % t, ops)
    return {"oracle": bad, "file": mod.__file__, "model_cases": model_cases}


def main():
    job = json.load(sys.stdin)
    import logging
    logging.disable(logging.CRITICAL)
    if job.get("sequential"):
        out = sequential_job(job)
        sys.stdout.write(json.dumps(out))
        sys.stdout.flush()
        os._exit(0)
    out = single_job(job) if "schedule" in job else enumerate_job(job)
    sys.stdout.write(json.dumps(out))
    sys.stdout.flush()
    os._exit(0)   # never wait for a leaked (deadlocked) daemon thread


if __name__ == "__main__":
    main()
