"""C15 driver: real QueueSemantivaOrchestrator master + real worker_loop threads on batches of distinct jobs.

Run as a script in a fresh interpreter (PYTHONPATH=<repo under test>:/verif): JSON on stdin, JSON on stdout.
    {"batches": [B, ...], "budget_s": T}
    B = {"jobs": [J, ...], "workers": 1..4, "switch": seconds for sys.setswitchinterval, "delays": [s before each enqueue],
         "start": "before" | "middle" | "after"   (when master/workers are started relative to the enqueues),
         "poll": worker poll interval, "timeout_s": generous wait for futures, "grace_s": wait after quiescence}
    J = {"nodes": [pipegen descriptors], "data": null | int | [ints], "ctx": {key: value},
         "cfg": "list" | "pipeline" (a Pipeline instance) | "tuple" (tuple of dicts) | "yaml_missing" (path to no file)}
Nothing of /repo is modified.  Harness-side observation points (all public seams):
  * a subclass of InMemorySemantivaTransport that records (thread, channel, job id, identity of the config object)
    before delegating to the real publish  -> which job id belongs to which enqueue, who published which status;
  * the loggers handed to master / workers (their own info / error lines are the model-level events
    "picked up", "received status", "worker failed job", "invalid pipeline configuration");
  * `queue_orchestrator.Future` is replaced by a subclass that counts set_result / set_exception calls.
Every wait has a timeout; threads are daemons, stopped and joined after each batch; the caller runs this
script under an overall timeout.
"""
from __future__ import annotations

import json
import logging
import os
import sys
import threading
import time
from concurrent.futures import Future


# --------------------------------------------------------------------------------------------
class CountingFuture(Future):
    def __init__(self):
        super().__init__()
        self.sets = []

    def set_result(self, result):
        self.sets.append(("result", threading.current_thread().name))
        return super().set_result(result)

    def set_exception(self, exception):
        self.sets.append(("exception", threading.current_thread().name))
        return super().set_exception(exception)


class Events:
    """One global, ordered list of observed model-level events."""

    def __init__(self):
        self.lock = threading.Lock()
        self.items = []

    def add(self, *ev):
        with self.lock:
            self.items.append(ev)


class RecHandler(logging.Handler):
    def __init__(self, events, who):
        super().__init__(level=logging.INFO)
        self.events, self.who = events, who

    def emit(self, record):
        try:
            msg = record.getMessage()
        except Exception:  # noqa
            return
        if record.levelno >= logging.ERROR:
            self.events.add("error", self.who, msg[:400])
        elif msg.startswith("Picked up job "):
            self.events.add("take", self.who, msg[len("Picked up job "):].strip())
        elif msg.startswith("Master received status for job "):
            self.events.add("poll", self.who, msg[len("Master received status for job "):].strip())


def make_logger(events, who, uniq):
    from semantiva.logger import Logger
    lg = logging.getLogger("verif.c15.%s.%s" % (uniq, who))
    lg.handlers = [RecHandler(events, who)]
    lg.propagate = False
    lg.setLevel(logging.INFO)
    return Logger(logger=lg)


_loaded = {}


def load():
    if _loaded:
        return _loaded
    from harness import core
    from harness.lib import pipegen as pg
    pg.setup_impl()
    logging.disable(logging.NOTSET)          # pg.setup_impl silences everything; the recorders need INFO/ERROR
    root = logging.getLogger()
    root.handlers = [logging.NullHandler()]
    logging.getLogger("Semantiva").setLevel(logging.CRITICAL + 1)
    logging.getLogger("Semantiva").handlers = []
    import semantiva.execution.job_queue.queue_orchestrator as qo
    import semantiva.execution.job_queue.worker as wk
    import semantiva.execution.transport.in_memory as im
    for m in (qo, wk, im):
        if not os.path.realpath(m.__file__).startswith(os.path.realpath(core.REPO) + os.sep):
            raise RuntimeError("imported %s, expected the repo under test %s" % (m.__file__, core.REPO))
    qo.Future = CountingFuture

    class RecTransport(im.InMemorySemantivaTransport):
        def __init__(self, events):
            super().__init__()
            self.events = events

        def publish(self, channel, data, context, metadata=None, require_ack=False):
            md = metadata or {}
            self.events.add("publish", threading.current_thread().name, channel, md.get("job_id"),
                            id(md.get("pipeline")) if "pipeline" in md else None)
            return super().publish(channel, data, context, metadata=metadata, require_ack=require_ack)

    _loaded.update(core=core, pg=pg, qo=qo, wk=wk, im=im, RecTransport=RecTransport)
    return _loaded


_uniq = [0]


def build_cfg(L, jd, keep):
    pg = L["pg"]
    kind = jd.get("cfg", "list")
    cfgs = [pg.node_impl(n) for n in jd["nodes"]]
    if kind == "list":
        return cfgs
    if kind == "tuple":
        return tuple(cfgs)
    if kind == "pipeline":
        from semantiva.pipeline import Pipeline
        return Pipeline(cfgs)
    if kind == "yaml_missing":
        return "/nonexistent/verif_c15_%d.yaml" % len(keep)
    raise ValueError(kind)


def canon_exc(L, ex):
    return L["pg"].exc_class(ex)


def run_batch(b):
    L = load()
    pg, qo, wk = L["pg"], L["qo"], L["wk"]
    from semantiva.context_processors import ContextType
    from semantiva.execution.executor.executor import SequentialSemantivaExecutor
    _uniq[0] += 1
    jobs = b["jobs"]
    n = len(jobs)
    nw = int(b.get("workers", 1))
    events = Events()
    # ---- direct execution of every job's pipeline on its own payload (the reference of the property)
    direct = []
    for jd in jobs:
        try:
            direct.append(list(pg.run_impl(jd["nodes"], jd.get("data"), jd.get("ctx", {}))))
        except Exception as ex:  # noqa
            direct.append(["unsupported", "direct execution: %r" % (ex,)])
    old_switch = sys.getswitchinterval()
    sys.setswitchinterval(float(b.get("switch", 0.005)))
    tr = L["RecTransport"](events)
    orch = qo.QueueSemantivaOrchestrator(tr, stop_event=None, logger=make_logger(events, "master", _uniq[0]))
    stop = threading.Event()
    slow = float(b.get("slow_enqueue", 0.0))
    if slow > 0:
        # a legal schedule: the enqueuing thread is preempted right after handing the job to the master's queue, long
        # enough for master, worker and the status message to finish before enqueue() continues
        _put = orch.job_queue.put

        def put(item, *a, **kw):
            r = _put(item, *a, **kw)
            time.sleep(slow)
            return r
        orch.job_queue.put = put
    master = threading.Thread(target=orch.run_forever, daemon=True, name="c15-master")
    workers = [threading.Thread(target=wk.worker_loop, daemon=True, name="c15-worker-%d" % w,
                                args=(w, tr, SequentialSemantivaExecutor(), stop, make_logger(events, "w%d" % w, _uniq[0]),
                                      float(b.get("poll", 0.01))))
               for w in range(nw)]
    started = [False]

    def start_all():
        if not started[0]:
            started[0] = True
            order = [master] + workers if b.get("master_first", True) else workers + [master]
            for t in order:
                t.start()

    when = b.get("start", "before")
    if when == "before":
        start_all()
    futs, cfg_objs = [], []
    delays = b.get("delays") or [0.0] * n
    t0 = time.time()
    try:
        for k, jd in enumerate(jobs):
            if delays[k] > 0:
                time.sleep(delays[k])
            if when == "middle" and k == n // 2:
                start_all()
            cfg = build_cfg(L, jd, cfg_objs)
            cfg_objs.append(cfg)
            ctx = ContextType({a: pg.v_impl(v) for a, v in jd.get("ctx", {}).items()})
            events.add("enq", "client", k)
            futs.append(orch.enqueue(cfg, data=pg.make_data(jd.get("data")), context=ctx, return_future=True))
        start_all()
        # ---- wait: all futures done, or the system is quiescent (nothing queued anywhere, every job either resolved or
        #      given up by a worker with an error line) for grace_s, or the generous timeout
        deadline = time.time() + float(b.get("timeout_s", 20.0))
        grace = float(b.get("grace_s", 0.7))
        quiet_since = None
        quiescent = False
        while time.time() < deadline:
            if all(f.done() for f in futs):
                break
            if system_quiet(orch, tr, events, futs, cfg_objs):
                quiet_since = quiet_since or time.time()
                if time.time() - quiet_since >= grace:
                    quiescent = True
                    break
            else:
                quiet_since = None
            time.sleep(0.01)
        waited = time.time() - t0
    finally:
        # ---- always shut down and join
        try:
            orch.stop()
        except Exception:  # noqa
            pass
        stop.set()
        leaked = []
        if started[0]:
            for t in [master] + workers:
                t.join(4.0)
                if t.is_alive():
                    leaked.append(t.name)
        sys.setswitchinterval(old_switch)
    all_done = all(f.done() for f in futs)
    if all_done and system_quiet(orch, tr, events, futs, cfg_objs):
        quiescent = True
    return observe(L, b, jobs, futs, cfg_objs, events.items, direct, quiescent, waited, leaked)


def jid_map(items, cfg_objs):
    by_obj = {id(c): k for k, c in enumerate(cfg_objs)}
    m = {}
    for ev in items:
        if ev[0] == "publish" and ev[2].endswith(".cfg") and ev[4] in by_obj:
            m[ev[3]] = by_obj[ev[4]]
    return m


def system_quiet(orch, tr, events, futs, cfg_objs):
    if not orch.job_queue.empty():
        return False
    with events.lock:
        items = list(events.items)
    m = jid_map(items, cfg_objs)
    if len(m) < len(futs):
        return False
    for _c, (q, _l) in list(tr._queues.items()):
        if len(q):
            return False
    errs = [e[2] for e in items if e[0] == "error"]
    for jid, k in m.items():
        if not futs[k].done() and not any(jid in e for e in errs):
            return False
    return True


def observe(L, b, jobs, futs, cfg_objs, items, direct, quiescent, waited, leaked):
    pg = L["pg"]
    n = len(jobs)
    jm = jid_map(items, cfg_objs)              # job id string -> enqueue index
    inv = {k: j for j, k in jm.items()}
    # ---- model-level event trace
    trace, finished, taken = [], set(), {}
    status_pubs = {k: 0 for k in range(n)}
    unknown = []
    for ev in items:
        if ev[0] == "enq":
            trace.append(["enq", ev[2]])
        elif ev[0] == "publish":
            _t, thread, chan, jid, _obj = ev
            if chan.endswith(".cfg"):
                if jid in jm:
                    trace.append(["deq", jm[jid]])
                else:
                    unknown.append(list(ev[:4]))
            elif chan.endswith(".status"):
                j = chan[len("jobs."):-len(".status")]
                if j in jm and thread.startswith("c15-worker-"):
                    k = jm[j]
                    status_pubs[k] += 1
                    if k not in finished:
                        finished.add(k)
                        trace.append(["fin", int(thread.rsplit("-", 1)[1]), k])
                else:
                    unknown.append(list(ev[:4]))
        elif ev[0] == "take":
            if ev[2] in jm:
                taken[jm[ev[2]]] = int(ev[1][1:])
                trace.append(["take", int(ev[1][1:]), jm[ev[2]]])
            else:
                unknown.append(list(ev))
        elif ev[0] == "poll":
            if ev[2] in jm:
                trace.append(["poll", jm[ev[2]]])
            else:
                unknown.append(list(ev))
        elif ev[0] == "error" and ev[1].startswith("w"):
            for jid, k in jm.items():
                if jid in ev[2] and k not in finished:
                    finished.add(k)
                    trace.append(["fin", int(ev[1][1:]), k])
    # ---- futures
    obs = []
    for k, f in enumerate(futs):
        o = {"sets": len(f.sets), "status_publications": status_pubs.get(k, 0), "published": k in inv,
             "worker_errors": [e[2][:160] for e in items if e[0] == "error" and k in inv and inv[k] in e[2]][:2]}
        if not f.done():
            o["state"] = "pending"
        elif f.exception(timeout=0) is not None:
            ex = f.exception(timeout=0)
            o["state"], o["exc"], o["msg"] = "exception", pg.exc_class(ex), str(ex)[:160]
        else:
            res = f.result(timeout=0)
            o["state"] = "result"
            try:
                data, ctx = res
                d = ctx.to_dict()
                jid = d.pop("job_id", None)
                o["jid_own"] = (jid == inv.get(k))
                o["jid_index"] = jm.get(jid)
                o["data"] = pg.canon_data(data)
                o["ctx"] = {a: pg.canon_val(v) for a, v in d.items()}
            except pg.Unsupported as u:
                o["unsupported"] = str(u)
            except Exception as ex:  # noqa  (result is not a (data, context) pair ...)
                o["malformed"] = repr(ex)[:200]
        obs.append(o)
    out = {"obs": obs, "direct": direct, "trace": trace, "quiescent": quiescent, "waited_s": round(waited, 3),
           "leaked_threads": leaked, "unknown_events": unknown[:5], "workers": b.get("workers", 1)}
    out["oracle"] = oracle(jobs, out)
    return out


def oracle(jobs, r):
    """Direct oracles on the real observables (independent of the Coq model).  -> [(signature, what, job index)]"""
    bad = []
    n = len(jobs)
    for k in range(n):
        o, d, jd = r["obs"][k], r["direct"][k], jobs[k]
        kind = jd.get("cfg", "list")
        where = "job %d of %d, %d worker(s)" % (k, n, r["workers"])
        if o["sets"] > 1:
            bad.append(("C15:future-set-more-than-once", "%s: set_result/set_exception called %d times" % (where, o["sets"]), k))
        if o["status_publications"] > 1:
            bad.append(("C15:job-executed-more-than-once", "%s: %d status messages published" % (where, o["status_publications"]), k))
        if d[0] == "unsupported" or "unsupported" in o:
            continue
        if kind != "list":
            # documented as accepted (Pipeline instance) or at least a caller error: the Future must not hang
            if o["state"] == "pending":
                bad.append(("C15:rejected-config-future-never-completes:" + kind,
                            "%s: config of kind %r is dropped by the worker (error line only), the Future stays pending "
                            "after the system went quiescent: %s" % (where, kind, o["worker_errors"][:1]), k))
            elif o["state"] == "result" and kind in ("pipeline", "tuple") and d[0] == "done" and \
                    (o.get("data"), o.get("ctx")) != (d[1], d[2]):
                bad.append(("C15:result-differs-from-direct-execution", "%s (%s config): future %r, direct %r"
                            % (where, kind, (o.get("data"), o.get("ctx")), (d[1], d[2])), k))
            continue
        if d[0] == "done":
            if o["state"] == "pending":
                bad.append(("C15:successful-job-future-never-completes",
                            "%s: pipeline succeeds when run directly, Future still pending after %.1fs (quiescent=%s) %s"
                            % (where, r["waited_s"], r["quiescent"], o["worker_errors"][:1]), k))
            elif o["state"] == "exception":
                bad.append(("C15:successful-job-future-fails", "%s: direct run succeeds, Future raised %s: %s"
                            % (where, o["exc"], o.get("msg")), k))
            elif "malformed" in o:
                bad.append(("C15:result-malformed", "%s: %s" % (where, o["malformed"]), k))
            else:
                if not o["jid_own"]:
                    bad.append(("C15:cross-talk:foreign-job-id", "%s: result context carries the job id of job %r"
                                % (where, o["jid_index"]), k))
                if (o["data"], o["ctx"]) != (d[1], d[2]):
                    other = [i for i in range(n) if i != k and r["direct"][i][0] == "done"
                             and (r["direct"][i][1], r["direct"][i][2]) == (o["data"], o["ctx"])]
                    if other:
                        bad.append(("C15:cross-talk:result-of-another-job", "%s: future holds the result of job %d: %r, own direct result %r"
                                    % (where, other[0], (o["data"], o["ctx"]), (d[1], d[2])), k))
                    else:
                        bad.append(("C15:result-differs-from-direct-execution", "%s: future %r, direct %r"
                                    % (where, (o["data"], o["ctx"]), (d[1], d[2])), k))
        else:   # the pipeline raises when run directly: the Future must complete exceptionally
            if o["state"] == "pending":
                bad.append(("C15:failing-job-future-never-completes",
                            "%s: pipeline raises %s when run directly; the worker only logged it (%s); no status message, "
                            "system quiescent=%s, Future still pending after %.1fs"
                            % (where, d[-1], (o["worker_errors"] or ["-"])[0][:90], r["quiescent"], r["waited_s"]), k))
            elif o["state"] == "result":
                bad.append(("C15:failing-job-future-completed-with-result", "%s: direct run raises %s, Future returned %r"
                            % (where, d[-1], (o.get("data"), o.get("ctx"))), k))
            elif o["exc"] != d[-1]:
                bad.append(("C15:failing-job-wrong-exception", "%s: direct run raises %s, Future raised %s" % (where, d[-1], o["exc"]), k))
    if r["leaked_threads"]:
        bad.append(("C15:thread-does-not-stop", "threads still alive 4 s after stop(): %s" % r["leaked_threads"], -1))
    return bad


# --------------------------------------------------------------------------------------------
# Deterministic exploration at the granularity of the model's actors: every transport operation of the real master /
# worker threads (publish, next message of a subscription) waits at a gate until the controller releases that thread.
class Gate:
    def __init__(self):
        self.cv = threading.Condition()
        self.waiting = {}       # thread name -> (kind, channel / pattern)
        self.released = None
        self.free = False

    def arrive(self, kind, what):
        name = threading.current_thread().name
        with self.cv:
            if self.free:
                return
            self.waiting[name] = (kind, what)
            self.cv.notify_all()
            while self.released != name and not self.free:
                self.cv.wait(0.2)
            if self.released == name:
                self.released = None
            self.waiting.pop(name, None)
            self.cv.notify_all()

    def wait_parked(self, names, timeout=6.0):
        end = time.time() + timeout
        with self.cv:
            while not all(n in self.waiting for n in names) or self.released is not None:
                left = end - time.time()
                if left <= 0:
                    return False
                self.cv.wait(min(left, 0.2))
            return True

    def release(self, name):
        with self.cv:
            self.released = name
            self.cv.notify_all()

    def open(self):
        with self.cv:
            self.free = True
            self.cv.notify_all()


def run_gated(b, prefix):
    """One execution of batch b under the gate scheduler following the choice prefix; -> (observation, decisions)."""
    L = load()
    pg, qo, wk = L["pg"], L["qo"], L["wk"]
    from semantiva.context_processors import ContextType
    from semantiva.execution.executor.executor import SequentialSemantivaExecutor
    _uniq[0] += 1
    jobs, nw = b["jobs"], int(b.get("workers", 1))
    events, gate = Events(), Gate()

    class GatedSub:
        def __init__(self, inner, pattern):
            self.inner, self.pattern = inner, pattern

        def __iter__(self):
            it = iter(self.inner)
            while True:
                gate.arrive("next", self.pattern)
                try:
                    m = next(it)
                except StopIteration:
                    return
                yield m

        def close(self):
            self.inner.close()

    class GateTransport(L["RecTransport"]):
        def publish(self, channel, data, context, metadata=None, require_ack=False):
            gate.arrive("publish", channel)
            return super().publish(channel, data, context, metadata=metadata, require_ack=require_ack)

        def subscribe(self, channel, *, callback=None):
            return GatedSub(super().subscribe(channel, callback=callback), channel)

    direct = []
    for jd in jobs:
        try:
            direct.append(list(pg.run_impl(jd["nodes"], jd.get("data"), jd.get("ctx", {}))))
        except Exception as ex:  # noqa
            direct.append(["unsupported", "direct execution: %r" % (ex,)])
    tr = GateTransport(events)
    orch = qo.QueueSemantivaOrchestrator(tr, stop_event=None, logger=make_logger(events, "master", _uniq[0]))
    stop = threading.Event()
    names = ["c15-master"] + ["c15-worker-%d" % w for w in range(nw)]
    threads = [threading.Thread(target=orch.run_forever, daemon=True, name="c15-master")]
    threads += [threading.Thread(target=wk.worker_loop, daemon=True, name="c15-worker-%d" % w,
                                 args=(w, tr, SequentialSemantivaExecutor(), stop, make_logger(events, "w%d" % w, _uniq[0]), 0.001))
                for w in range(nw)]
    futs, cfg_objs, decisions = [], [], []
    status = "ok"
    t0 = time.time()

    def nonempty(suffix):
        return any(len(q) for c, (q, _l) in list(tr._queues.items()) if c.endswith(suffix))

    try:
        for t in threads:
            t.start()
        nxt = 0
        for _step in range(40 * (len(jobs) + 1)):
            if not gate.wait_parked(names):
                status = "stall"
                break
            with gate.cv:
                waiting = dict(gate.waiting)
            enabled = []
            if nxt < len(jobs):
                enabled.append("enq")
            mk = waiting["c15-master"]
            if mk[0] == "publish" or nonempty(".status"):
                enabled.append("c15-master")
            elif not orch.job_queue.empty():
                gate.release("c15-master")     # silent: nothing to receive, a job is waiting to be published
                continue
            for w in range(nw):
                k = waiting["c15-worker-%d" % w]
                if k[0] == "publish" or nonempty(".cfg"):
                    enabled.append("c15-worker-%d" % w)
            if not enabled:
                break                          # quiescent
            i = len(decisions)
            chosen = prefix[i] if i < len(prefix) and prefix[i] in enabled else enabled[0]
            decisions.append({"enabled": enabled, "chosen": chosen})
            if chosen == "enq":
                jd = jobs[nxt]
                cfg = build_cfg(L, jd, cfg_objs)
                cfg_objs.append(cfg)
                ctx = ContextType({a: pg.v_impl(v) for a, v in jd.get("ctx", {}).items()})
                events.add("enq", "client", nxt)
                futs.append(orch.enqueue(cfg, data=pg.make_data(jd.get("data")), context=ctx, return_future=True))
                nxt += 1
            else:
                gate.release(chosen)
        else:
            status = "too-long"
        quiescent = status == "ok"
    finally:
        gate.open()
        try:
            orch.stop()
        except Exception:  # noqa
            pass
        stop.set()
        leaked = []
        for t in threads:
            t.join(4.0)
            if t.is_alive():
                leaked.append(t.name)
    while len(futs) < len(jobs):        # not all jobs were enqueued (stall): pad with untouched futures
        futs.append(CountingFuture())
        cfg_objs.append(object())
    out = observe(L, b, jobs, futs, cfg_objs, events.items, direct, quiescent, time.time() - t0, leaked)
    out["status"] = status
    return out, decisions


def explore(job):
    b = job["explore"]
    deadline = time.time() + float(job.get("budget_s", 60))
    max_execs = int(job.get("max_execs", 100000))
    stack = [list(job.get("root", []))]
    execs, complete, seen = [], True, set()
    while stack:
        if time.time() > deadline or len(execs) >= max_execs:
            complete = False
            break
        prefix = stack.pop()
        out, decs = run_gated(b, prefix)
        chosen = [d["chosen"] for d in decs]
        out["schedule"] = chosen
        key = json.dumps([out["trace"], [o.get("state") for o in out["obs"]]])
        if key in seen and not out["oracle"] and out["status"] == "ok":
            out = {"schedule": chosen, "dup": True, "status": "ok", "oracle": []}
        seen.add(key)
        execs.append(out)
        if out["status"] != "ok":
            continue
        new = []
        for i, d in enumerate(decs):
            if i >= len(prefix):
                for alt in d["enabled"]:
                    if alt != d["chosen"]:
                        new.append(chosen[:i] + [alt])
        stack.extend(reversed(new))
    return {"executions": execs, "complete": complete}


def run_chained(job):
    """Client programs chain work from done-callbacks: a callback attached to a pending Future enqueues a follow-up job
    (return_future=True), as a passive callback, or from another thread meanwhile.  Every Future -- first stage, follow-up,
    and jobs enqueued by other threads in between -- must complete with its own result.  Direct oracle only."""
    L = load()
    pg, qo, wk = L["pg"], L["qo"], L["wk"]
    from semantiva.context_processors import ContextType
    from semantiva.execution.executor.executor import SequentialSemantivaExecutor
    _uniq[0] += 1
    events = Events()
    tr = L["RecTransport"](events)
    orch = qo.QueueSemantivaOrchestrator(tr, stop_event=None, logger=make_logger(events, "master", _uniq[0]))
    stop = threading.Event()
    nw = int(job.get("workers", 2))
    stops = [threading.Event() if job.get("mode") == "retire" else stop for _ in range(nw)]     # retire: every worker has its own stop event
    master = threading.Thread(target=orch.run_forever, daemon=True, name="c15-master")
    workers = [threading.Thread(target=wk.worker_loop, daemon=True, name="c15-worker-%d" % w,
                                args=(w, tr, SequentialSemantivaExecutor(), stops[w], make_logger(events, "w%d" % w, _uniq[0]), 0.01))
               for w in range(nw)]
    for t in [master] + workers:
        t.start()
    jobs = job["jobs"]
    keep = []
    direct = [list(pg.run_impl(jd["nodes"], jd.get("data"), jd.get("ctx", {}))) for jd in jobs]

    def enq(jd):
        cfg = build_cfg(L, jd, keep)
        keep.append(cfg)
        ctx = ContextType({a: pg.v_impl(v) for a, v in jd.get("ctx", {}).items()})
        return orch.enqueue(cfg, data=pg.make_data(jd.get("data")), context=ctx, return_future=True)
    stage2, cb_state, passive = {}, {}, []
    first = []
    problems = []
    try:
        for k, jd in enumerate(jobs):
            f = enq(jd)
            first.append(f)
            if job.get("mode", "chain") == "chain":
                def cb(fut, k=k, jd=jd):
                    cb_state[k] = "entered"
                    try:
                        stage2[k] = enq(jd)
                        cb_state[k] = "returned"
                    except BaseException as ex:  # noqa
                        cb_state[k] = "raised %r" % (ex,)
                f.add_done_callback(cb)
            else:
                f.add_done_callback(lambda fut, k=k: passive.append(k))
        late = []
        t_late = threading.Thread(target=lambda: late.append(enq(jobs[0])), daemon=True)
        deadline = time.time() + float(job.get("timeout_s", 8.0))
        started_late = False
        retired = False
        while time.time() < deadline:
            if job.get("mode") == "retire" and not retired and any(f.done() for f in first):
                stops[-1].set()            # one worker leaves while jobs are in flight; the others keep serving
                retired = True
            if not started_late and all(f.done() for f in first[:1]):
                t_late.start()
                started_late = True
            want2 = len(jobs) if job.get("mode", "chain") == "chain" else 0
            if all(f.done() for f in first) and len(stage2) == want2 and all(f.done() for f in stage2.values()) and late and late[0].done():
                break
            time.sleep(0.01)

        def res_of(f, k):
            if not f.done():
                return "pending"
            if f.exception(timeout=0) is not None:
                return ["failed", type(f.exception(timeout=0)).__name__]
            data, _ctx = f.result(timeout=0)
            return ["done", pg.canon_data(data)]
        for k, f in enumerate(first):
            r = res_of(f, k)
            if r == "pending":
                problems.append(["C15:future-never-completes:%s:first-stage" % {"chain": "chained-callbacks", "passive": "plain-batch", "retire": "worker-retired-mid-batch"}.get(job.get("mode", "chain")), "job %d: Future still pending" % k])
            elif direct[k][0] == "done" and r != ["done", direct[k][1]]:
                problems.append(["C15:wrong-result:chained-callbacks", "job %d: %s, direct execution %s" % (k, r, direct[k][:2])])
        if job.get("mode", "chain") == "chain":
            for k in range(len(jobs)):
                if cb_state.get(k) != "returned":
                    problems.append(["C15:future-never-completes:chained-callbacks:callback-stuck-in-enqueue",
                                     "done-callback of job %d that enqueues a follow-up job: %s" % (k, cb_state.get(k, "never called"))])
                elif res_of(stage2[k], k) == "pending":
                    problems.append(["C15:future-never-completes:chained-callbacks:follow-up", "follow-up of job %d: Future still pending" % k])
                elif direct[k][0] == "done" and res_of(stage2[k], k) != ["done", direct[k][1]]:
                    problems.append(["C15:wrong-result:chained-callbacks", "follow-up of job %d: %s, direct %s" % (k, res_of(stage2[k], k), direct[k][:2])])
        if not late or not late[0].done():
            problems.append(["C15:future-never-completes:chained-callbacks:other-thread", "a job enqueued by another thread meanwhile: %s"
                             % ("enqueue() did not return" if not late else "Future still pending")])
    finally:
        try:
            orch.stop()
        except Exception:  # noqa
            pass
        stop.set()
        for e in stops:
            e.set()
    seen, out = set(), []
    for sig, what in problems:
        if sig not in seen:
            seen.add(sig)
            out.append([sig, what])
    return {"problems": out, "master_alive": master.is_alive()}


def run_context_kinds(job):
    """Jobs whose CONTEXT is of every accepted kind: a plain ContextType, none at all, and a ContextCollectionType (a global
    context plus one context per element of the data collection -- a ContextType subclass).  Every Future yields what a direct
    run of the pipeline on an equal payload yields: the data, the context's type, its global part and its element contexts."""
    import logging
    import threading
    from semantiva import Pipeline, Payload
    from semantiva.context_processors import ContextType, ContextCollectionType
    from semantiva.examples.test_utils import FloatDataType, FloatDataCollection, FloatMultiplyOperation, FloatCollectValueProbe
    from semantiva.execution.executor.executor import SequentialSemantivaExecutor
    from semantiva.execution.job_queue.queue_orchestrator import QueueSemantivaOrchestrator
    from semantiva.execution.job_queue.worker import worker_loop
    from semantiva.execution.transport.in_memory import InMemorySemantivaTransport
    from semantiva.logger.logger import Logger

    def quiet(name):
        lg = logging.getLogger(name)
        lg.handlers[:] = [logging.NullHandler()]
        lg.propagate = False
        lg.setLevel(logging.CRITICAL)
        return Logger(logger=lg, console_output=False)

    def coll_ctx(n, unit):
        return ContextCollectionType(global_context={"unit": unit}, context_list=[ContextType({"exposure": 0.5 * (k + 1)}) for k in range(n)])

    def coll(n):
        return FloatDataCollection([FloatDataType(float(k + 1)) for k in range(n)])

    def mk(i):
        if i == 0:
            return [{"processor": FloatMultiplyOperation, "parameters": {"factor": 3}}, {"processor": FloatCollectValueProbe, "context_key": "probe"}], FloatDataType(10.0), ContextType({"tag": 0})
        if i == 1:
            return [{"processor": "FloatValueDataSource", "parameters": {"value": 4.0}}, {"processor": FloatMultiplyOperation, "parameters": {"factor": 5}}], None, None
        if i == 2:
            return [{"processor": "rename:unit:units"}], coll(2), coll_ctx(2, "mm")
        if i == 3:
            return [{"processor": "delete:exposure"}], coll(3), coll_ctx(3, "cm")
        if i == 5:      # context keys named like the words the queue itself uses
            return [{"processor": FloatMultiplyOperation, "parameters": {"factor": 2}}], FloatDataType(2.5), ContextType({"error": 0.25, "status": "raw", "metadata": {"error": "none"}})
        if i == 6:      # a node writes a key called `error` (an error estimate)
            return [{"processor": FloatMultiplyOperation, "parameters": {"factor": 7}}, {"processor": FloatCollectValueProbe, "context_key": "error"}], FloatDataType(3.0), ContextType({})
        return [{"processor": FloatMultiplyOperation, "parameters": {"factor": 2}}], FloatDataType(1.5), ContextType({})

    def describe(data, ctx):
        if isinstance(ctx, ContextCollectionType):
            shared = {k: ctx.get_value(k) for k in ContextType.keys(ctx)}
            items = [c.to_dict() for c in ctx]
        else:
            shared, items = ctx.to_dict(), None
        shared.pop("job_id", None)
        return [str(data), type(ctx).__name__, json.dumps(shared, sort_keys=True, default=repr), json.dumps(items, sort_keys=True, default=repr)]
    n = 8
    expected = []
    for i in range(n):
        cfg, data, ctx = mk(i)
        try:
            out = Pipeline(cfg, logger=quiet("direct")).process(Payload(data, ctx if ctx is not None else ContextType()))
            expected.append(["ok"] + describe(out.data, out.context))
        except Exception as exc:  # noqa
            expected.append(["error", type(exc).__name__])
    transport = InMemorySemantivaTransport()
    orch = QueueSemantivaOrchestrator(transport, logger=quiet("master"))
    threading.Thread(target=orch.run_forever, daemon=True).start()
    stop = threading.Event()
    for w in range(2):
        threading.Thread(target=worker_loop, args=(w, transport, SequentialSemantivaExecutor(), stop, quiet("worker%d" % w)), daemon=True).start()
    problems = []
    try:
        futs = []
        for i in range(n):
            if i % 3 == 0:      # fire-and-forget jobs (no Future asked for) in between the awaited ones
                cfg, data, ctx = mk(7)
                orch.enqueue(cfg, data=data, context=ctx, return_future=False)
            cfg, data, ctx = mk(i)
            futs.append(orch.enqueue(cfg, data=data, context=ctx, return_future=True))
        deadline = time.time() + 20
        for i, fut in enumerate(futs):
            try:
                data, ctx = fut.result(timeout=max(0.2, deadline - time.time()))
                got = ["ok"] + describe(data, ctx)
            except Exception as exc:  # noqa
                got = ["error", type(exc).__name__]
            if got != expected[i]:
                kind = ["plain", "none", "collection-rename-global", "collection-delete-element-key", "empty", "keys-named-error-status-metadata",
                        "node-writes-key-named-error", "plain-after-fire-and-forget"][i]
                problems.append(["C15:wrong-result:context-kind:" + kind, "job %d (context kind %s): Future %s, direct execution %s" % (i, kind, got, expected[i])])
        # a job whose processor calls sys.exit() (a wrapped command-line helper): its Future fails with that SystemExit, like the direct
        # run, and the worker goes on serving the jobs behind it
        class ExitingOp(FloatMultiplyOperation):
            def _process_logic(self, data, factor):
                raise SystemExit("verif: helper called sys.exit()")
        efuts = [orch.enqueue([{"processor": ExitingOp, "parameters": {"factor": 2}}], data=FloatDataType(1.0), return_future=True) for _ in range(2)]
        efuts.append(orch.enqueue([{"processor": FloatMultiplyOperation, "parameters": {"factor": 4}}], data=FloatDataType(1.0), return_future=True))
        deadline = time.time() + 10
        outs = []
        for fut in efuts:
            try:
                data, ctx = fut.result(timeout=max(0.2, deadline - time.time()))
                outs.append(str(data))
            except BaseException as exc:  # noqa
                outs.append(type(exc).__name__)
        if outs != ["SystemExit", "SystemExit", str(FloatDataType(4.0))]:
            problems.append(["C15:future-never-completes:job-ended-by-system-exit",
                             "two jobs whose processor raises SystemExit, then a plain job (two workers): Futures give %s; the direct runs give "
                             "['SystemExit', 'SystemExit', '%s']" % (outs, FloatDataType(4.0))])
        # one context OBJECT handed to several jobs (a caller preparing one context and enqueuing a batch with it): every job
        # still works on what it was given and returns its own result
        shared = ContextType({"tag": 5})
        factors = [2, 3, 5, 7]
        sfuts = [orch.enqueue([{"processor": FloatMultiplyOperation, "parameters": {"factor": f}}, {"processor": FloatCollectValueProbe, "context_key": "probe"}],
                              data=FloatDataType(1.0), context=shared, return_future=True) for f in factors]
        deadline = time.time() + 10
        for f, fut in zip(factors, sfuts):
            try:
                data, ctx = fut.result(timeout=max(0.2, deadline - time.time()))
                got = [str(data), ctx.get_value("probe"), ctx.get_value("tag")]
            except Exception as exc:  # noqa
                got = ["error", type(exc).__name__]
            want = [str(FloatDataType(float(f))), float(f), 5]
            if got != want:
                problems.append(["C15:wrong-result:one-context-object-for-several-jobs",
                                 "four jobs (factors %s) enqueued with ONE ContextType object: the Future of factor %d gives %s, its own run gives %s"
                                 % (factors, f, got, want)])
                break
    finally:
        try:
            orch.stop()
        except Exception:  # noqa
            pass
        stop.set()
    return {"problems": problems}


def run_cancel(job):
    """A caller cancels the Future of a job that is still pending (it gives up waiting).  The job itself may or may not run; what
    matters is everybody else: the Futures of the jobs enqueued before and after it complete with their own results."""
    import logging
    import threading
    from concurrent.futures import CancelledError
    from semantiva.examples.test_utils import FloatDataType, FloatMultiplyOperation
    from semantiva.execution.executor.executor import SequentialSemantivaExecutor
    from semantiva.execution.job_queue.queue_orchestrator import QueueSemantivaOrchestrator
    from semantiva.execution.job_queue.worker import worker_loop
    from semantiva.execution.transport.in_memory import InMemorySemantivaTransport
    from semantiva.logger.logger import Logger

    def quiet(name):
        lg = logging.getLogger(name)
        lg.handlers[:] = [logging.NullHandler()]
        lg.propagate = False
        lg.setLevel(logging.CRITICAL)
        return Logger(logger=lg, console_output=False)
    transport = InMemorySemantivaTransport()
    orch = QueueSemantivaOrchestrator(transport, logger=quiet("master"))
    master = threading.Thread(target=orch.run_forever, daemon=True)
    stop = threading.Event()
    problems = []
    try:
        cfg = lambda f: [{"processor": FloatMultiplyOperation, "parameters": {"factor": f}}]  # noqa: E731
        # enqueue three jobs BEFORE master and worker start, cancel the middle one while it is pending, then start them
        futs = [orch.enqueue(cfg(k + 2), data=FloatDataType(10.0), return_future=True) for k in range(3)]
        cancelled = futs[1].cancel()
        master.start()
        threading.Thread(target=worker_loop, args=(0, transport, SequentialSemantivaExecutor(), stop, quiet("worker0")), daemon=True).start()
        later = []
        import time as _t
        _t.sleep(0.5)
        later = [orch.enqueue(cfg(k + 7), data=FloatDataType(10.0), return_future=True) for k in range(2)]
        want = {0: 20.0, 2: 40.0}
        for k, f in list(enumerate(futs)) + [(10 + i, f) for i, f in enumerate(later)]:
            if k == 1:
                continue
            expect = want.get(k, 10.0 * (k - 10 + 7))
            try:
                data, _ctx = f.result(timeout=8)
                if data.data != expect:
                    problems.append(["C15:wrong-result:after-a-cancelled-future", "job %d: %r, direct execution gives %r" % (k, data.data, expect)])
            except CancelledError:
                problems.append(["C15:wrong-result:after-a-cancelled-future", "job %d reports cancelled although only job 1 was cancelled" % k])
            except Exception as ex:  # noqa
                if type(ex).__name__ == "TimeoutError":
                    problems.append(["C15:future-never-completes:after-a-cancelled-future",
                                     "job %d (enqueued %s the cancelled one): Future still pending after 8 s; master thread alive: %s; cancel() returned %s"
                                     % (k, "after" if k > 1 else "before", master.is_alive(), cancelled)])
                    break
                problems.append(["C15:wrong-result:after-a-cancelled-future", "job %d: raises %r" % (k, ex)])
    finally:
        try:
            orch.stop()
        except Exception:  # noqa
            pass
        stop.set()
    return {"problems": problems}


def main():
    job = json.load(sys.stdin)
    L = load()
    if "cancel" in job:
        try:
            out = run_cancel(job)
        except Exception as ex:  # noqa
            import traceback
            out = {"error": "%r\n%s" % (ex, traceback.format_exc()[-1200:])}
        sys.stdout.write(json.dumps(out))
        sys.stdout.flush()
        os._exit(0)
    if "context_kinds" in job:
        try:
            out = run_context_kinds(job)
        except Exception as ex:  # noqa
            import traceback
            out = {"error": "%r\n%s" % (ex, traceback.format_exc()[-1200:])}
        sys.stdout.write(json.dumps(out))
        sys.stdout.flush()
        os._exit(0)
    if "chained" in job:
        res = []
        for j in job["chained"]:
            try:
                res.append(run_chained(j))
            except Exception as ex:  # noqa
                import traceback
                res.append({"error": "%r\n%s" % (ex, traceback.format_exc()[-1200:])})
        sys.stdout.write(json.dumps({"chained": res}))
        sys.stdout.flush()
        os._exit(0)
    if "explore" in job:
        out = explore(job)
        out["files"] = {m: os.path.realpath(L[m].__file__) for m in ("qo", "wk", "im")}
        sys.stdout.write(json.dumps(out))
        sys.stdout.flush()
        os._exit(0)
    t_end = time.time() + float(job.get("budget_s", 120))
    res = []
    for b in job["batches"]:
        if time.time() > t_end:
            res.append({"skipped": "budget"})
            continue
        try:
            res.append(run_batch(b))
        except Exception as ex:  # noqa: report, never swallow
            import traceback
            res.append({"error": "%r\n%s" % (ex, traceback.format_exc()[-1500:])})
    out = {"results": res, "files": {m: os.path.realpath(L[m].__file__) for m in ("qo", "wk", "im")}}
    sys.stdout.write(json.dumps(out))
    sys.stdout.flush()
    os._exit(0)   # never wait for a leaked daemon thread


if __name__ == "__main__":
    main()
