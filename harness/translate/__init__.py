"""Fail-closed translators: read facts from /repo's working tree with `ast`,
emit coq/Gen/*.v.  Each translator returns {"ok": bool, "error": str, "sources": {path: sha256}}.
Unknown shapes raise TranslationError (recorded; the stale Gen file is replaced by a
stub that makes dependent obligations fail by name)."""
from __future__ import annotations

import ast
import importlib
import os
import traceback

from harness import core


class TranslationError(Exception):
    pass


def parse(rel):
    path = os.path.join(core.REPO, rel)
    src = open(path).read()
    return ast.parse(src), path


def find_def(tree, name, kind=(ast.FunctionDef, ast.ClassDef)):
    for n in ast.walk(tree):
        if isinstance(n, kind) and n.name == name:
            return n
    raise TranslationError("definition %s not found" % name)


def find_assign(scope, name):
    for n in ast.walk(scope):
        if isinstance(n, ast.Assign) and any(isinstance(t, ast.Name) and t.id == name for t in n.targets):
            return n.value
        if isinstance(n, ast.AnnAssign) and isinstance(n.target, ast.Name) and n.target.id == name and n.value is not None:
            return n.value
    raise TranslationError("assignment %s not found" % name)


def _discover():
    here = os.path.dirname(os.path.abspath(__file__))
    return sorted(f[:-3] for f in os.listdir(here) if f.endswith(".py") and not f.startswith("_"))


TRANSLATORS = _discover()


def run_all(only=None):
    res = {}
    os.makedirs(os.path.join(core.COQ, "Gen"), exist_ok=True)
    for name in TRANSLATORS:
        if only and name not in only:
            continue
        mod = importlib.import_module("harness.translate." + name)
        out = os.path.join(core.COQ, "Gen", mod.OUT)
        try:
            text, sources = mod.translate()
            core.write_if_changed(out, text)
            res[name] = {"ok": True, "sources": {p: core.sha_file(p) for p in sources}, "out": mod.OUT}
        except Exception as ex:  # fail closed
            err = "%s: %s" % (type(ex).__name__, ex)
            if not isinstance(ex, TranslationError):
                err += "\n" + traceback.format_exc()[-1500:]
            # keep the previous Gen file if any (so the models still compile for the search),
            # but record the failure: the check treats it as a broken obligation.
            if not os.path.exists(out):
                core.write_if_changed(out, mod.FALLBACK)
            res[name] = {"ok": False, "error": err, "out": mod.OUT}
    return res
