"""semantiva/trace/aggregation/aggregator.py -> Gen/AggregatorGen.v

Emits (fail closed on any unknown shape):
* `gen_rules : Rules` — the ordered status decision chains of finalize_run / finalize_launch
  (nested `if`s flattened with the guard conjoined), their final `else` values, and the
  `_TERMINAL` status set as status codes;
* structural facts as booleans: the record_type dispatch of `ingest`, that `last_status` /
  `timing` are plain last-writer assignments in `_ingest_ser`, the three `problems.append`
  guards of finalize_run and the two of finalize_launch, the set formulas for
  missing / orphan / nonterminal, and the roll-up loop of finalize_launch.
"""
import ast

from harness.translate import TranslationError, find_assign, find_def, parse
from harness.core import cq_bool, cq_list, cq_N

OUT = "AggregatorGen.v"
SRC = "semantiva/trace/aggregation/aggregator.py"

# status name -> code used by the model and by harness/props/c13.py ("unknown" is what the
# code substitutes for a missing / falsy status).
STATUS_CODES = {"unknown": 0, "succeeded": 1, "error": 2, "skipped": 3, "cancelled": 4,
                "running": 5, "pending": 6, "started": 7, "weird": 8}

FALLBACK = """From Coq Require Import List NArith ZArith Bool. Import ListNotations.
From SV Require Import Model.Aggregator.
Definition gen_rules : Rules := mkRules [] Invalid [] Invalid [].
Definition dispatch_ok := false.
Definition ser_status_last_writer := false.
Definition ser_timing_last_writer := false.
Definition run_problem_guards_ok := false.
Definition launch_problem_guards_ok := false.
Definition set_formulas_ok := false.
Definition rollup_loop_ok := false.
Definition translation_failed := true.
"""

RUN_ATOMS = {"run.saw_start": "ASawStart", "run.saw_end": "ASawEnd", "observed_nodes": "AObserved"}
LAUNCH_ATOMS = {"launch.saw_start": "ASawStart", "launch.saw_end": "ASawEnd", "launch.pipelines": "APipes",
                "run_status_counts['partial']": "ARunsPartial", "run_status_counts['invalid']": "ARunsInvalid"}
STATUS = {"complete": "Complete", "partial": "Partial", "invalid": "Invalid"}


def bexpr(node, atoms):
    if isinstance(node, ast.BoolOp):
        op = "BAnd" if isinstance(node.op, ast.And) else "BOr"
        parts = [bexpr(v, atoms) for v in node.values]
        out = parts[-1]
        for p in reversed(parts[:-1]):
            out = "(%s %s %s)" % (op, p, out)
        return out
    if isinstance(node, ast.UnaryOp) and isinstance(node.op, ast.Not):
        return "(BNot %s)" % bexpr(node.operand, atoms)
    txt = ast.unparse(node)
    if txt in atoms:
        return "(BAtom %s)" % atoms[txt]
    raise TranslationError("status rule: unknown condition atom %r" % txt)


def _status_assign(stmts, var):
    """body == [`var = "<status>"`] (plain or annotated)  ->  status tag"""
    if len(stmts) != 1:
        return None
    s = stmts[0]
    tgt = val = None
    if isinstance(s, ast.Assign) and len(s.targets) == 1:
        tgt, val = s.targets[0], s.value
    elif isinstance(s, ast.AnnAssign):
        tgt, val = s.target, s.value
    if isinstance(tgt, ast.Name) and tgt.id == var and isinstance(val, ast.Constant) and val.value in STATUS:
        return STATUS[val.value]
    return None


def chain_of(ifnode, var, atoms, guard=None):
    """Flatten an if/elif/else tree whose leaves assign a status to `var` into
    ([(bexpr, status)], default_or_None).  `guard` is conjoined to every condition."""
    out = []
    node = ifnode
    while True:
        cond = bexpr(node.test, atoms)
        full = cond if guard is None else "(BAnd %s %s)" % (guard, cond)
        st = _status_assign(node.body, var)
        if st is not None:
            out.append((full, st))
        elif len(node.body) == 1 and isinstance(node.body[0], ast.If):
            inner, dflt = chain_of(node.body[0], var, atoms, guard=full)
            if dflt is None:
                raise TranslationError("status rule: nested if without else")
            out += inner
            out.append((full, dflt))
        else:
            raise TranslationError("status rule: unexpected branch body: " + ast.unparse(node.body[0])[:80])
        if not node.orelse:
            return out, None
        if len(node.orelse) == 1 and isinstance(node.orelse[0], ast.If):
            node = node.orelse[0]
            continue
        st = _status_assign(node.orelse, var)
        if st is None:
            raise TranslationError("status rule: unexpected else body")
        return out, st


def _assigns(node, var):
    for n in ast.walk(node):
        if isinstance(n, ast.Assign) and any(ast.unparse(t) == var for t in n.targets):
            return True
        if isinstance(n, ast.AugAssign) and ast.unparse(n.target) == var:
            return True
        if isinstance(n, ast.AnnAssign) and ast.unparse(n.target) == var and n.value is not None:
            return True
    return False


def status_if(fn, var):
    found = [s for s in fn.body if _assigns(s, var)]
    if len(found) != 1 or not isinstance(found[0], ast.If):
        raise TranslationError("%s: expected exactly one top-level status decision `if`, found %d statements assigning %s"
                               % (fn.name, len(found), var))
    return found[0]


def has_stmt(fn, text, top_only=False):
    want = ast.unparse(ast.parse(text))
    pool = fn.body if top_only else [n for n in ast.walk(fn) if isinstance(n, ast.stmt)]
    return any(ast.unparse(s) == want for s in pool)


def translate():
    tree, path = parse(SRC)
    term = find_assign(tree, "_TERMINAL")
    if not (isinstance(term, ast.Set) and all(isinstance(e, ast.Constant) and isinstance(e.value, str) for e in term.elts)):
        raise TranslationError("_TERMINAL is not a set literal of strings")
    names = sorted(e.value for e in term.elts)
    for n in names:
        if n not in STATUS_CODES:
            raise TranslationError("_TERMINAL contains a status without a code: %r" % n)
    cls = find_def(tree, "TraceAggregator", ast.ClassDef)
    meth = {n.name: n for n in cls.body if isinstance(n, ast.FunctionDef)}
    for need in ("ingest", "finalize_run", "finalize_launch", "_ingest_ser", "_ingest_pipeline_start",
                 "_ingest_pipeline_end", "_ingest_run_space_start", "_ingest_run_space_end"):
        if need not in meth:
            raise TranslationError("method %s not found" % need)

    fr, fl = meth["finalize_run"], meth["finalize_launch"]
    rchain, rdef = chain_of(status_if(fr, "status_val"), "status_val", RUN_ATOMS)
    lchain, ldef = chain_of(status_if(fl, "status_val"), "status_val", LAUNCH_ATOMS)
    if rdef is None or ldef is None:
        raise TranslationError("status chain without a final else")

    # ingest dispatch
    disp = {}
    node = next((s for s in meth["ingest"].body if isinstance(s, ast.If)), None)
    while node is not None:
        t = node.test
        if not (isinstance(t, ast.Compare) and ast.unparse(t.left) == "record_type" and len(t.ops) == 1
                and isinstance(t.ops[0], ast.Eq) and isinstance(t.comparators[0], ast.Constant)
                and len(node.body) == 1):
            raise TranslationError("ingest: unexpected dispatch test " + ast.unparse(t))
        disp[t.comparators[0].value] = ast.unparse(node.body[0])
        if len(node.orelse) == 1 and isinstance(node.orelse[0], ast.If):
            node = node.orelse[0]
        else:
            if not all(isinstance(s, (ast.Return, ast.Pass, ast.Expr)) for s in node.orelse):
                raise TranslationError("ingest: unknown record types are not ignored")
            node = None
    want = {"run_space_start": "self._ingest_run_space_start(record)", "run_space_end": "self._ingest_run_space_end(record)",
            "pipeline_start": "self._ingest_pipeline_start(record)", "pipeline_end": "self._ingest_pipeline_end(record)",
            "ser": "self._ingest_ser(record)"}
    dispatch_ok = disp == want

    ser = meth["_ingest_ser"]
    ser_status = has_stmt(ser, "node.last_status = status", top_only=True) and \
        has_stmt(ser, "status = record.get('status') or 'unknown'", top_only=True)
    ser_timing = has_stmt(ser, "node.timing = record.get('timing') or {}", top_only=True)
    run_guards = all(has_stmt(fr, t, top_only=True) for t in (
        "if not run.saw_start:\n    problems.append('missing_pipeline_start')",
        "if not run.saw_end:\n    problems.append('missing_pipeline_end')",
        "if run.start_timestamp and run.end_timestamp and (run.start_timestamp > run.end_timestamp):\n"
        "    problems.append('start_time_gt_end_time')"))
    launch_guards = all(has_stmt(fl, t, top_only=True) for t in (
        "if not launch.saw_start:\n    problems.append('missing_run_space_start')",
        "if not launch.saw_end:\n    problems.append('missing_run_space_end')"))
    formulas = all(has_stmt(fr, t, top_only=True) for t in (
        "observed_nodes = set(run.nodes.keys())",
        "missing = sorted(expected_nodes - observed_nodes) if expected_nodes else []",
        "orphan = sorted(observed_nodes - expected_nodes) if expected_nodes else []",
        "nonterminal = sorted([node_id for node_id, node in run.nodes.items() if node.last_status not in _TERMINAL])"))
    rollup = has_stmt(fl, "for run_id in launch.pipelines:\n    completeness = self.finalize_run(run_id)\n"
                          "    run_status_counts[completeness.status] += 1", top_only=True) and \
        has_stmt(fl, "run_status_counts = {'complete': 0, 'partial': 0, 'invalid': 0}", top_only=True)

    def chain_lit(c):
        return cq_list(["(%s, %s)" % (b, s) for b, s in c])

    text = """(* GENERATED from %s by harness/translate/aggregator.py — do not edit *)
From Coq Require Import List NArith ZArith Bool. Import ListNotations.
From SV Require Import Model.Aggregator.
(* status chains of finalize_run / finalize_launch in source order; _TERMINAL = %s *)
Definition gen_rules : Rules :=
  mkRules
    %s
    %s
    %s
    %s
    %s.
Definition dispatch_ok : bool := %s.
Definition ser_status_last_writer : bool := %s.
Definition ser_timing_last_writer : bool := %s.
Definition run_problem_guards_ok : bool := %s.
Definition launch_problem_guards_ok : bool := %s.
Definition set_formulas_ok : bool := %s.
Definition rollup_loop_ok : bool := %s.
Definition translation_failed := false.
""" % (SRC, ", ".join(names), chain_lit(rchain), rdef, chain_lit(lchain), ldef,
       cq_list([STATUS_CODES[n] for n in names], cq_N),
       cq_bool(dispatch_ok), cq_bool(ser_status), cq_bool(ser_timing), cq_bool(run_guards),
       cq_bool(launch_guards), cq_bool(formulas), cq_bool(rollup))
    return text, [path]
