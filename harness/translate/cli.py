"""semantiva/cli/__init__.py (+ docs/source/cli.rst, trace/drivers/jsonl.py) -> Gen/CliGen.v

Facts read from the source (fail closed on any unknown shape):
  codes          the EXIT_* constants
  doc_codes      the "Exit codes" list of docs/source/cli.rst
  chain          `_run` as an ordered decision chain: every `return` of the function is attributed to a
                 pre-flight stage (by the call guarded by its `try`, or by the test of its `if`), in source
                 order, interleaved with the marker steps MkTrace / MkPipeline / Expand / LaunchStart / Loop.
                 `_load_yaml` (which exits through SystemExit) is expanded in place.
  loop facts     initial exit code, handler -> exit code, whether the `try` encloses the `for` (a failed
                 run ends the loop), `pipeline.process` occurs only inside that loop
  trace_lazy     JsonlTraceDriver.__init__ neither opens nor creates anything
  missing_rule   missing = required_context_keys - (--context keys + keys of the first planned run)
"""
import ast
import os
import re

from harness import core
from harness.core import cq_bool, cq_list, cq_pair, cq_str, cq_Z
from harness.translate import TranslationError, find_def, parse

OUT = "CliGen.v"
SRC = "semantiva/cli/__init__.py"
DOC = "docs/source/cli.rst"
DRV = "semantiva/trace/drivers/jsonl.py"

FALLBACK = """From Coq Require Import List String ZArith Bool. Import ListNotations.
From SV Require Import Model.Cli Gen.InspectGen Gen.RunSpaceGen.
Open Scope string_scope.
Definition codes : list (string * Z) := [].
Definition doc_codes : list (Z * string) := [].
Definition chain : list step := [].
Definition loop_initial : string := "".
Definition loop_handlers : list (string * string) := [].
Definition stop_after_failure : bool := false.
Definition trace_lazy : bool := false.
Definition missing_rule_first_run : bool := false.
Definition usage_error_code : string := "".
Definition knobs : Cli.knobs := mkKnobs chain codes trace_lazy stop_after_failure loop_initial "" InspectGen.impl RunSpaceGen.impl.
Definition translation_failed := true.
"""

MARKERS = {"_build_trace_driver": "MkTrace", "Pipeline": "MkPipeline", "expand_run_space": "Expand",
           "run_space_emitter.emit_start": "LaunchStart"}
# calls that start node execution or write trace records: may only occur where the walker expects them
GUARDED = {"pipeline.process", "run_space_emitter.emit_start", "run_space_emitter.emit_end"}


def _calls(node):
    return [ast.unparse(n.func) for n in ast.walk(node) if isinstance(n, ast.Call)]


def _codes(tree):
    out = []
    for n in tree.body:
        if isinstance(n, ast.Assign) and len(n.targets) == 1 and isinstance(n.targets[0], ast.Name) \
                and n.targets[0].id.startswith("EXIT_"):
            if not (isinstance(n.value, ast.Constant) and isinstance(n.value.value, int) and not isinstance(n.value.value, bool)):
                raise TranslationError("exit code %s is not an integer literal" % n.targets[0].id)
            out.append((n.targets[0].id, n.value.value))
    if not out:
        raise TranslationError("no EXIT_* constants")
    if len({k for k, _ in out}) != len(out):
        raise TranslationError("EXIT_* constant assigned twice")
    return out


def _doc_codes(path):
    text = open(path).read()
    m = re.search(r"^Exit codes\n-+\n(.*?)\n\S[^\n]*\n[-=~]{3,}\n", text, re.S | re.M)
    if not m:
        raise TranslationError("cli.rst: 'Exit codes' section not found")
    out = []
    for line in m.group(1).split("\n"):
        if not line.strip():
            continue
        mm = re.match(r"^- ``(\d+)`` - (.*\S)\s*$", line)
        if not mm:
            raise TranslationError("cli.rst: unexpected line in 'Exit codes': %r" % line)
        out.append((int(mm.group(1)), mm.group(2)))
    if not out:
        raise TranslationError("cli.rst: empty exit code list")
    return out


def _load_yaml_checks(fn):
    """_load_yaml: one try whose handlers raise SystemExit(EXIT_*)."""
    tries = [n for n in fn.body if isinstance(n, ast.Try)]
    if len(tries) != 1 or len(fn.body) != 1:
        raise TranslationError("_load_yaml: expected a single try statement")
    t = tries[0]
    if "yaml.safe_load" not in _calls(ast.Module(body=t.body, type_ignores=[])):
        raise TranslationError("_load_yaml: yaml.safe_load not in the protected region")
    out = []
    for h in t.handlers:
        ty = ast.unparse(h.type) if h.type is not None else "BaseException"
        raises = [n for n in ast.walk(h) if isinstance(n, ast.Raise)]
        if len(raises) != 1 or not isinstance(raises[0].exc, ast.Call) or ast.unparse(raises[0].exc.func) != "SystemExit" \
                or len(raises[0].exc.args) != 1 or not isinstance(raises[0].exc.args[0], ast.Name):
            raise TranslationError("_load_yaml: handler %s does not `raise SystemExit(EXIT_*)`" % ty)
        out.append((ty, raises[0].exc.args[0].id))
    kinds = {"FileNotFoundError": "Missing", "yaml.YAMLError": "Yaml"}
    res = []
    for i, (ty, code) in enumerate(out):
        if ty == "(OSError, UnicodeDecodeError)":
            # a file that exists and cannot be read as text (a directory, no permission, bytes that are not UTF-8): outside the file
            # states of the model (present / missing / unparsable); judged by the direct oracle of C17.  It must not shadow the
            # handler for a missing file (FileNotFoundError is an OSError) and must answer with the file-error code.
            if code != "EXIT_FILE_ERROR" or "FileNotFoundError" not in [t for t, _ in out[:i]]:
                raise TranslationError("_load_yaml: the handler for unreadable files shadows FileNotFoundError or does not exit with EXIT_FILE_ERROR")
            continue
        if ty not in kinds:
            raise TranslationError("_load_yaml: unknown handler " + ty)
        res.append((kinds[ty], code))
    if [k for k, _ in res] != ["Missing", "Yaml"]:
        raise TranslationError("_load_yaml: handlers are not (FileNotFoundError, yaml.YAMLError)")
    return res


class Walker:
    def __init__(self, load_checks):
        self.steps = []          # ("Check", stage, code) | (marker,)
        self.load_checks = load_checks
        self.loop = None
        self.final_return = False
        self.seen_guarded = []

    def check(self, stage, code):
        step = ("Check", stage, code)
        if self.steps and self.steps[-1] == step:
            return
        for s in self.steps:
            if s[0] == "Check" and s[1] == stage and s[2] != code:
                raise TranslationError("stage %s returns two different codes (%s, %s)" % (stage, s[2], code))
        self.steps.append(step)

    # ---- classification of one `return`
    def classify(self, ret, stack):
        if ret.value is None or not isinstance(ret.value, ast.Name):
            raise TranslationError("_run: return of a non-name at line %d" % ret.lineno)
        code = ret.value.id
        if not stack:
            if code != "exit_code":
                raise TranslationError("_run: unexpected top-level return %s" % code)
            if self.loop is None:
                raise TranslationError("_run: `return exit_code` before the run loop")
            self.final_return = True
            return
        if self.loop is not None:
            raise TranslationError("_run: return after the run loop at line %d" % ret.lineno)
        if not code.startswith("EXIT_"):
            raise TranslationError("_run: return %s at line %d" % (code, ret.lineno))
        fors = [f[1] for f in stack if f[0] == "for"]
        in_rs_file = any(f[0] == "if" and f[1] == "args.run_space_file" for f in stack)
        top = stack[-1]
        stage = None
        if top[0] == "except":
            ty, calls = top[1], top[2]
            if "_parse_key_value" in calls and "args.overrides" in fors:
                stage = "StOverride"
            elif "_apply_override" in calls and "args.overrides" in fors:
                stage = "StOverride"
            elif "_parse_key_value" in calls and "args.contexts" in fors:
                stage = "StContextArg"
            elif "_parse_options_list" in calls:
                stage = "StCliMerge"
            elif "parse_pipeline_config" in calls:
                stage = "StParse"
            elif "build_pipeline_inspection" in calls or "validate_pipeline" in calls:
                if not ("build_pipeline_inspection" in calls and "validate_pipeline" in calls):
                    raise TranslationError("_run: inspection and validation are not in one protected region")
                if ty not in ("Exception", "BaseException"):
                    raise TranslationError("_run: pre-flight validation handler catches only " + ty)
                stage = "StValidate"
            elif "_build_trace_driver" in calls:
                stage = "StTraceDriver"
            elif "_build_execution_components" in calls:
                stage = "StExecComponents"
            elif "expand_run_space" in calls:
                stage = {"PipelineConfigurationError": "StRunSpace", "RunSpaceMaxRunsExceededError": "StMaxRuns"}.get(ty)
            elif "identity_service.compute" in calls and ty == "FileNotFoundError":
                stage = "StRsSourceMissing"
        elif top[0] == "if":
            test, branch = top[1], top[2]
            if branch == "body":
                stage = {"args.validate": "StValidateFlag", "missing": "StMissingKeys",
                         "pipeline_cfg.run_space.dry_run": "StRunSpaceDry", "args.dry_run": "StDryRun",
                         "attempt_arg < 1": "StAttempt"}.get(test)
                if stage is None and re.fullmatch(r"not isinstance\(\w+, dict\)", test):
                    stage = "StRsFileShape" if in_rs_file else "StCliMerge"
            else:
                if test.startswith("raw_config is None") or "isinstance(raw_config, dict)" in test:
                    stage = "StLoadNotMapping"
                elif in_rs_file:
                    stage = "StRsFileShape"
        if stage is None:
            raise TranslationError("_run: cannot attribute `return %s` at line %d (context %r)" % (code, ret.lineno, top[:2]))
        self.check(stage, code)

    # ---- simple statement: marker calls
    def simple(self, st, stack):
        for c in ast.walk(st):
            if not isinstance(c, ast.Call):
                continue
            name = ast.unparse(c.func)
            if name == "_load_yaml":
                arg = ast.unparse(c.args[0]) if c.args else ""
                pre = {"Path(args.pipeline)": "StLoad", "run_space_path": "StRsFile"}.get(arg)
                if pre is None:
                    raise TranslationError("_run: _load_yaml of unknown argument " + arg)
                if self.loop is not None:
                    raise TranslationError("_run: _load_yaml after the loop")
                for kind, code in self.load_checks:
                    self.check(pre + kind, code)
            elif name in GUARDED and name != "run_space_emitter.emit_start":
                self.seen_guarded.append((name, st.lineno, [f[0] for f in stack]))
            if name in MARKERS:
                if self.loop is not None:
                    raise TranslationError("_run: %s after the run loop" % name)
                self.steps.append((MARKERS[name],))

    def loop_try(self, t, stack):
        """try: for idx, run_values in enumerate(runs): ... pipeline.process(...)  except ...: exit_code = EXIT_*"""
        fors = [n for n in t.body if isinstance(n, ast.For)]
        if len(fors) != 1 or len(t.body) != 1:
            raise TranslationError("_run: the protected loop region is not a single `for`")
        f = fors[0]
        if ast.unparse(f.iter) != "enumerate(runs)":
            raise TranslationError("_run: run loop iterates " + ast.unparse(f.iter))
        if any(isinstance(n, (ast.Try, ast.Break, ast.Continue, ast.Return)) and not self._defensive(n) for n in ast.walk(f)):
            raise TranslationError("_run: run loop body contains try/break/continue/return around the run")
        if _calls(f).count("pipeline.process") != 1:
            raise TranslationError("_run: run loop does not call pipeline.process exactly once")
        ctx_src = ast.unparse(f)
        if "run_context = dict(ctx_dict)" not in ctx_src or "run_context.update(run_values)" not in ctx_src:
            raise TranslationError("_run: run context is not --context values updated by the run's values")
        if "Payload(NoDataType(), ContextType(run_context)) if run_context else None" not in ctx_src:
            raise TranslationError("_run: unexpected initial payload")
        handlers = []
        for h in t.handlers:
            ty = ast.unparse(h.type) if h.type is not None else "BaseException"
            assigns = [n for n in ast.walk(h) if isinstance(n, ast.Assign) and ast.unparse(n.targets[0]) == "exit_code"]
            if len(assigns) != 1 or not isinstance(assigns[0].value, ast.Name):
                raise TranslationError("_run: loop handler %s does not set exit_code once" % ty)
            if any(isinstance(n, (ast.Return, ast.Raise)) for n in ast.walk(h)):
                raise TranslationError("_run: loop handler %s returns/raises" % ty)
            handlers.append((ty, assigns[0].value.id))
        if [h[0] for h in handlers] != ["KeyboardInterrupt", "Exception"]:
            raise TranslationError("_run: loop handlers are %r" % [h[0] for h in handlers])
        for n in t.finalbody:
            for c in ast.walk(n):
                if isinstance(c, (ast.Return, ast.Raise)):
                    raise TranslationError("_run: return/raise in the loop's finally")
        self.loop = {"handlers": handlers, "stop": True}
        self.steps.append(("Loop",))

    @staticmethod
    def _defensive(n):
        # the `try: logger.info(...) except Exception: logger.info(...)` blocks that print the result
        if isinstance(n, ast.Try):
            calls = _calls(n)
            return all(c.startswith("logger.") or c in ("repr", "result_payload.context.to_dict", "ctx.items", "lines.append",
                                                        "v_repr.replace", "'\\n'.join") for c in calls) \
                and not any(isinstance(x, (ast.Return, ast.Break, ast.Continue, ast.Raise)) for x in ast.walk(n))
        return False

    def block(self, stmts, stack):
        for st in stmts:
            if isinstance(st, ast.Return):
                self.classify(st, stack)
            elif isinstance(st, ast.If):
                test = ast.unparse(st.test)
                for c in ast.walk(st.test):
                    if isinstance(c, ast.Call) and ast.unparse(c.func) in GUARDED | set(MARKERS) | {"_load_yaml"}:
                        raise TranslationError("_run: guarded call inside an if test")
                self.block(st.body, stack + [("if", test, "body")])
                self.block(st.orelse, stack + [("if", test, "else")])
            elif isinstance(st, ast.For):
                if "pipeline.process" in _calls(st):
                    raise TranslationError("_run: run loop outside a protected region")
                self.block(st.body, stack + [("for", ast.unparse(st.iter))])
                if st.orelse:
                    raise TranslationError("_run: for/else")
            elif isinstance(st, ast.Try):
                body_calls = _calls(ast.Module(body=st.body, type_ignores=[]))
                if "pipeline.process" in body_calls:
                    if stack:
                        raise TranslationError("_run: run loop is nested in %r" % (stack[-1][:2],))
                    self.loop_try(st, stack)
                    continue
                self.block(st.body, stack + [("try",)])
                for h in st.handlers:
                    ty = ast.unparse(h.type) if h.type is not None else "BaseException"
                    self.block(h.body, stack + [("except", ty, body_calls)])
                self.block(st.orelse, stack + [("try",)])
                self.block(st.finalbody, stack + [("try",)])
            elif isinstance(st, (ast.While, ast.With, ast.Match, ast.FunctionDef, ast.ClassDef, ast.AsyncFunctionDef)):
                raise TranslationError("_run: unexpected %s at line %d" % (type(st).__name__, st.lineno))
            elif isinstance(st, ast.Raise):
                raise TranslationError("_run: raise at line %d" % st.lineno)
            else:
                self.simple(st, stack)


def translate():
    tree, path = parse(SRC)
    codes = _codes(tree)
    names = {k for k, _ in codes}
    docs = _doc_codes(os.path.join(core.REPO, DOC))
    load_checks = _load_yaml_checks(find_def(tree, "_load_yaml", ast.FunctionDef))
    run = find_def(tree, "_run", ast.FunctionDef)
    w = Walker(load_checks)
    w.block(run.body, [])
    if w.loop is None or not w.final_return:
        raise TranslationError("_run: run loop / final return not found")
    if w.steps[-1] != ("Loop",):
        raise TranslationError("_run: steps after the loop")
    for s in w.steps:
        if s[0] == "Check" and s[2] not in names:
            raise TranslationError("_run: unknown exit constant " + s[2])
    for ty, code in w.loop["handlers"]:
        if code not in names:
            raise TranslationError("_run: unknown exit constant " + code)
    # guarded calls: pipeline.process once (inside the loop: checked), emit_end only in the loop's finally
    src = ast.unparse(run)
    if src.count("pipeline.process(") != 1:
        raise TranslationError("_run: pipeline.process must occur exactly once")
    if src.count("emit_start(") != 1 or src.count("emit_end(") != 1:
        raise TranslationError("_run: emit_start/emit_end must occur exactly once")
    # initial exit code of the loop
    init = [n for n in run.body if isinstance(n, ast.Assign) and ast.unparse(n.targets[0]) == "exit_code"]
    if len(init) != 1 or not isinstance(init[0].value, ast.Name) or init[0].value.id not in names:
        raise TranslationError("_run: exit_code is not initialised once at top level")
    # missing-key rule
    need = ["required_external = set(getattr(inspection, 'required_context_keys', set()) or set())",
            "probe_context: Dict[str, Any] = dict(ctx_dict)",
            "probe_context.update(runs[0])",
            "missing = sorted(required_external.difference(probe_context.keys()))"]
    for n in need:
        if n not in src:
            raise TranslationError("_run: missing-key gate: `%s` not found" % n)
    # the usage-error exit of the argument parser
    perr = find_def(find_def(tree, "_ArgumentParser", ast.ClassDef), "error", ast.FunctionDef)
    rs = [n for n in ast.walk(perr) if isinstance(n, ast.Raise)]
    if len(rs) != 1 or ast.unparse(rs[0].exc.func) != "SystemExit" or not isinstance(rs[0].exc.args[0], ast.Name):
        raise TranslationError("_ArgumentParser.error: unexpected shape")
    usage = rs[0].exc.args[0].id
    # main: sys.exit(code) with code = _run(args)
    msrc = ast.unparse(find_def(tree, "main", ast.FunctionDef))
    if "code = _run(args)" not in msrc or "sys.exit(code)" not in msrc:
        raise TranslationError("main: exit status is not _run's return value")
    # trace driver laziness
    dtree, dpath = parse(DRV)
    init_fn = find_def(find_def(dtree, "JsonlTraceDriver", ast.ClassDef), "__init__", ast.FunctionDef)
    icalls = _calls(init_fn)
    lazy = not any(c.split(".")[-1] in ("open", "mkdir", "touch", "write_text", "makedirs", "_open_file", "_open_run_space_file")
                   for c in icalls)
    # the CLI only builds the driver (never opens it) before the loop: build_trace_driver is the only call
    btd = ast.unparse(find_def(tree, "_build_trace_driver", ast.FunctionDef))
    if "return build_trace_driver(trace_cfg)" not in btd or "return None" not in btd:
        raise TranslationError("_build_trace_driver: unexpected shape")

    def step(s):
        if s[0] == "Check":
            return "Check %s %s" % (s[1], cq_str(s[2]))
        return s[0]
    runtime = dict(w.loop["handlers"])["Exception"]
    text = """(* GENERATED from semantiva/cli/__init__.py, docs/source/cli.rst, trace/drivers/jsonl.py by harness/translate/cli.py -- do not edit *)
From Coq Require Import List String ZArith Bool. Import ListNotations.
From SV Require Import Model.Cli Gen.InspectGen Gen.RunSpaceGen.
Open Scope string_scope.
Definition codes : list (string * Z) := %s.
Definition doc_codes : list (Z * string) := %s.
Definition chain : list step := [
  %s
].
Definition loop_initial : string := %s.
Definition loop_handlers : list (string * string) := %s.
Definition stop_after_failure : bool := %s.
Definition trace_lazy : bool := %s.
Definition missing_rule_first_run : bool := true.
Definition usage_error_code : string := %s.
Definition knobs : Cli.knobs := mkKnobs chain codes trace_lazy stop_after_failure loop_initial %s InspectGen.impl RunSpaceGen.impl.
Definition translation_failed := false.
""" % (cq_list([cq_pair(cq_str(k), cq_Z(v)) for k, v in codes]),
       cq_list([cq_pair(cq_Z(k), cq_str(v)) for k, v in docs]),
       ";\n  ".join(step(s) for s in w.steps),
       cq_str(init[0].value.id), cq_list([cq_pair(cq_str(a), cq_str(b)) for a, b in w.loop["handlers"]]),
       cq_bool(w.loop["stop"]), cq_bool(lazy), cq_str(usage), cq_str(runtime))
    return text, [path, os.path.join(core.REPO, DOC), dpath]
