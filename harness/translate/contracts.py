"""semantiva/contracts/expectations.py + pipeline/nodes/_pipeline_node_factory.py + pipeline/nodes/nodes.py
+ data_processors/parametric_sweep_factory.py  ->  Gen/ContractsGen.v

Emits (fail closed on any unknown shape):
  rules      : the RULES table: code, severity, and the metadata predicate of each check function
               (PReflect when the function inspects the class itself rather than its metadata)
  dispatch   : the issubclass chain of _pipeline_node_factory / create_io_node with the context_key policy
  node_lits  : component_type / wraps_component_type literals of the node classes and the class-name suffix
  facts      : sweep_dedup (ParametricSweep*.get_created_keys), probe_mirror (_ProbeContextInjectorNode.get_created_keys)
"""
import ast
import re

from harness.translate import TranslationError, find_def, parse
from harness.core import cq_bool, cq_list, cq_str

OUT = "ContractsGen.v"
SRC_RULES = "semantiva/contracts/expectations.py"
SRC_FACTORY = "semantiva/pipeline/nodes/_pipeline_node_factory.py"
SRC_NODES = "semantiva/pipeline/nodes/nodes.py"
SRC_SWEEP = "semantiva/data_processors/parametric_sweep_factory.py"

FALLBACK = """From Coq Require Import List String. Import ListNotations.
From SV Require Import Model.Contracts.
Definition rules : list rule := [].
Definition the_flags : flags := mkF false false.
Definition the_tables : tables := mkT [] [] the_flags.
Definition validate_runs_all_rules : bool := false.
Definition translation_failed := true.
"""

GUARD = "if not isinstance(md, dict):\n    return []"

EXACT = {
    "_r_metadata_dict": ("diags: List[Diagnostic] = []\nfor where in ('_define_metadata', 'get_metadata'):\n    try:\n        rv = getattr(cls, where)()\n    except Exception:\n        diags.append(_diag('SVA100', 'error', cls, {'where': where}))\n        continue\n    if not isinstance(rv, dict):\n        diags.append(_diag('SVA100', 'error', cls, {'where': where}))\nreturn diags",
                         "PTrue", ("SVA100", "error")),
    "_r_parameters_shape": ("if not isinstance(md, dict) or 'parameters' not in md:\n    return []\nparams = md['parameters']\nif params not in ('None', {}, None) and (not isinstance(params, (dict, list))):\n    return [_diag('SVA103', 'error', cls, {'got': type(params).__name__})]\nreturn []",
                            "(PParamsShape [])", ("SVA103", "error")),
    "_r_registry_coherence": ("if not isinstance(md, dict):\n    return []\ntry:\n    from semantiva.core.semantiva_component import get_component_registry\n    reg = get_component_registry()\n    ctype = md.get('component_type')\n    if ctype not in reg or cls not in reg.get(ctype, []):\n        return [_diag('SVA107', 'error', cls, {'component_type': ctype})]\nexcept Exception:\n    return []\nreturn []",
                              "PRegistered", ("SVA107", "error")),
    "_r_context_processor_info": ("if not isinstance(md, dict):\n    return []\nif md.get('component_type') == 'ContextProcessor':\n    return []\nreturn []",
                                  "PTrue", None),
}
LIST_UNIQUE = "return isinstance(val, list) and all((isinstance(x, str) for x in val)) and (len(val) == len(set(val)))"
VALIDATE = ("md = None\ntry:\n    val = getattr(cls, 'get_metadata')()\n    if isinstance(val, dict):\n        md = val\nexcept Exception:\n    md = None\n"
            "diags: List[Diagnostic] = []\nfor spec in RULES:\n    diags.extend(spec.check(cls, md))\nreturn diags")


def _body(fn):
    b = fn.body
    if b and isinstance(b[0], ast.Expr) and isinstance(b[0].value, ast.Constant) and isinstance(b[0].value.value, str):
        b = b[1:]
    return b


def _src(stmts):
    return "\n".join(ast.unparse(s) for s in stmts)


def _strs(node):
    """A set/tuple/list literal of string constants, or one string constant."""
    if isinstance(node, ast.Constant) and isinstance(node.value, str):
        return [node.value]
    if isinstance(node, (ast.Set, ast.Tuple, ast.List)) and all(isinstance(e, ast.Constant) and isinstance(e.value, str) for e in node.elts):
        return sorted(e.value for e in node.elts)
    raise TranslationError("expected string literal(s): " + ast.unparse(node))


def _diag_of(stmt):
    """`return [_diag(code, sev, cls, {...})]` -> (code, sev)"""
    if not (isinstance(stmt, ast.Return) and isinstance(stmt.value, ast.List) and len(stmt.value.elts) == 1):
        raise TranslationError("expected `return [_diag(...)]`: " + ast.unparse(stmt))
    c = stmt.value.elts[0]
    if not (isinstance(c, ast.Call) and ast.unparse(c.func) == "_diag" and len(c.args) == 4 and ast.unparse(c.args[2]) == "cls"):
        raise TranslationError("expected _diag call: " + ast.unparse(c))
    return c.args[0].value, c.args[1].value


def _is_ret_empty(stmt):
    return isinstance(stmt, ast.Return) and ast.unparse(stmt) == "return []"


CT = "md.get('component_type')"


def _ctype_test(node, alias):
    """test that component_type is in a set / equals a constant -> (positive?, [names])"""
    if not (isinstance(node, ast.Compare) and len(node.ops) == 1):
        raise TranslationError("unexpected component_type test: " + ast.unparse(node))
    left = ast.unparse(node.left)
    if left != CT and not (alias and left == alias):
        raise TranslationError("unexpected component_type test: " + ast.unparse(node))
    op = node.ops[0]
    names = _strs(node.comparators[0])
    if isinstance(op, (ast.In, ast.Eq)):
        return True, names
    if isinstance(op, (ast.NotIn, ast.NotEq)):
        return False, names
    raise TranslationError("unexpected component_type test: " + ast.unparse(node))


def _key_tests(node):
    """'k' not in md [or 'k2' not in md]  /  'k' in md  -> (missing?, [keys])"""
    parts = node.values if isinstance(node, ast.BoolOp) and isinstance(node.op, ast.Or) else [node]
    keys, kinds = [], set()
    for p in parts:
        if not (isinstance(p, ast.Compare) and len(p.ops) == 1 and ast.unparse(p.comparators[0]) == "md"
                and isinstance(p.left, ast.Constant) and isinstance(p.left.value, str)):
            raise TranslationError("unexpected key test: " + ast.unparse(node))
        keys.append(p.left.value)
        kinds.add(type(p.ops[0]).__name__)
    if kinds == {"NotIn"}:
        return True, keys
    if kinds == {"In"} and len(keys) == 1:
        return False, keys
    raise TranslationError("unexpected key test: " + ast.unparse(node))


def _md_get(node):
    m = re.fullmatch(r"md\.get\('([A-Za-z_]+)'\)", ast.unparse(node))
    if not m:
        raise TranslationError("expected md.get('<key>'): " + ast.unparse(node))
    return m.group(1)


def pred_of(fn, fns):
    """-> (coq predicate text, (code, severity) emitted or None)"""
    name = fn.name
    b = _body(fn)
    text = _src(b)
    if name in EXACT:
        want, pred, diag = EXACT[name]
        if text != want:
            raise TranslationError("%s: body differs from the recognised shape" % name)
        return pred, diag
    # delegations to _r_parameters_shape restricted to one component type
    if len(b) == 2 and ast.unparse(b[1]) == "return _r_parameters_shape(cls, md)":
        m = re.fullmatch(r"if not isinstance\(md, dict\) or md\.get\('component_type'\) != '(\w+)':\n    return \[\]", ast.unparse(b[0]))
        if not m:
            raise TranslationError("%s: unexpected delegation guard" % name)
        return "(PParamsShape [%s])" % cq_str(m.group(1)), ("SVA103", "error")
    # unique list
    m = re.fullmatch(r"if not isinstance\(md, dict\) or '(\w+)' not in md:\n    return \[\]\nif not _list_unique_str\(md\['(\w+)'\]\):\n    (return \[_diag\(.*\)\])\nreturn \[\]", text)
    if m and m.group(1) == m.group(2):
        return "(PUniqueList %s)" % cq_str(m.group(1)), _diag_of(b[1].body[0])
    # overlap
    m = re.fullmatch(r"if not isinstance\(md, dict\) or '(\w+)' not in md or '(\w+)' not in md:\n    return \[\]\noverlap = sorted\(set\(md\['(\w+)'\]\) & set\(md\['(\w+)'\]\)\)\nif overlap:\n    return \[_diag\(.*\)\]\nreturn \[\]", text)
    if m and m.group(1) == m.group(3) and m.group(2) == m.group(4):
        return "(PNoOverlap %s %s)" % (cq_str(m.group(1)), cq_str(m.group(2))), _diag_of(b[2].body[0])
    # required keys
    m = re.fullmatch(r"if not isinstance\(md, dict\):\n    return \[\]\nrequired = (\{.*\})\nmissing = sorted\(required - md\.keys\(\)\)\nif missing:\n    return \[_diag\(.*\)\]\nreturn \[\]", text)
    if m:
        return "(PRequiredKeys %s)" % cq_list(_strs(b[1].value), cq_str), _diag_of(b[3].body[0])

    # metadata shapes that start with the dict guard
    if b and ast.unparse(b[0]) == GUARD:
        rest = b[1:]
        alias = None
        if rest and isinstance(rest[0], ast.Assign) and ast.unparse(rest[0].value) == CT and isinstance(rest[0].targets[0], ast.Name):
            alias = rest[0].targets[0].id
            rest = rest[1:]
        # (a) single if:  <ctype in S> and <key tests / field test>
        if len(rest) == 2 and isinstance(rest[0], ast.If) and not rest[0].orelse and _is_ret_empty(rest[1]) \
                and isinstance(rest[0].test, ast.BoolOp) and isinstance(rest[0].test.op, ast.And) and len(rest[0].test.values) == 2:
            pos, cts = _ctype_test(rest[0].test.values[0], alias)
            if not pos:
                raise TranslationError("%s: negative component_type test in single-if shape" % name)
            diag = _diag_of(rest[0].body[0])
            second = rest[0].test.values[1]
            if isinstance(second, ast.Compare) and len(second.ops) == 1 and isinstance(second.ops[0], ast.NotEq) \
                    and isinstance(second.comparators[0], ast.Constant):
                return "(PFieldIs %s %s %s)" % (cq_list(cts, cq_str), cq_str(_md_get(second.left)), cq_str(second.comparators[0].value)), diag
            missing, keys = _key_tests(second)
            if missing:
                return "(PHasKeys %s %s)" % (cq_list(cts, cq_str), cq_list(keys, cq_str)), diag
            return "(PLacksKey %s %s)" % (cq_list(cts, cq_str), cq_str(keys[0])), diag
        # (b) early return unless ctype in S, then md.get(a) != md.get(b)
        if len(rest) == 3 and isinstance(rest[0], ast.If) and len(rest[0].body) == 1 and _is_ret_empty(rest[0].body[0]) \
                and isinstance(rest[1], ast.If) and _is_ret_empty(rest[2]):
            pos, cts = _ctype_test(rest[0].test, alias)
            if pos:
                raise TranslationError("%s: expected `not in` early return" % name)
            t = rest[1].test
            if isinstance(t, ast.Compare) and len(t.ops) == 1 and isinstance(t.ops[0], ast.NotEq):
                return "(PFieldsEq %s %s %s)" % (cq_list(cts, cq_str), cq_str(_md_get(t.left)), cq_str(_md_get(t.comparators[0]))), _diag_of(rest[1].body[0])
        # (c) match the bound processor's declared type
        if len(rest) == 6 and isinstance(rest[0], ast.If) and _is_ret_empty(rest[0].body[0]) \
                and ast.unparse(rest[1]) == "proc = getattr(cls, 'processor', None)":
            pos, cts = _ctype_test(rest[0].test, alias)
            m = re.fullmatch(r"if proc is None or not hasattr\(proc, '(input|output)_data_type'\) or (?:\()?not _is_classmethod\(proc, '(input|output)_data_type'\)(?:\))?:\n    return \[\]", ast.unparse(rest[2]))
            m2 = re.fullmatch(r"try:\n    expected = proc\.(input|output)_data_type\(\)\.__name__\nexcept Exception:\n    return \[\]", ast.unparse(rest[3]))
            if pos or not m or not m2 or len({m.group(1), m.group(2), m2.group(1)}) != 1 or not _is_ret_empty(rest[5]) or not isinstance(rest[4], ast.If):
                raise TranslationError("%s: unexpected processor-match shape" % name)
            t = rest[4].test
            parts = t.values if isinstance(t, ast.BoolOp) and isinstance(t.op, ast.Or) else [t]
            keys = []
            for p in parts:
                if not (isinstance(p, ast.Compare) and isinstance(p.ops[0], ast.NotEq) and ast.unparse(p.comparators[0]) == "expected"):
                    raise TranslationError("%s: unexpected comparison with processor type" % name)
                keys.append(_md_get(p.left))
            side = "SideIn" if m.group(1) == "input" else "SideOut"
            return "(PMatchProc %s %s %s)" % (cq_list(cts, cq_str), side, cq_list(keys, cq_str)), _diag_of(rest[4].body[0])

    # reflection-level: the function must look at the class itself
    class Strip(ast.NodeTransformer):
        def visit_Call(self, node):
            if ast.unparse(node.func) == "_diag":
                return ast.Constant(0)
            return self.generic_visit(node)
    import copy
    stripped = Strip().visit(copy.deepcopy(fn))
    uses_cls = any(isinstance(n, ast.Name) and n.id == "cls" for st in stripped.body for n in ast.walk(st))
    if uses_cls:
        return "PReflect", None
    raise TranslationError("%s: neither a recognised metadata shape nor a reflection rule" % name)


def translate_rules():
    tree, path = parse(SRC_RULES)
    fns = {n.name: n for n in tree.body if isinstance(n, ast.FunctionDef)}
    if _src(_body(fns["_list_unique_str"])) != LIST_UNIQUE:
        raise TranslationError("_list_unique_str changed")
    validate_ok = _src(_body(fns["validate_component"])) == VALIDATE
    if not validate_ok:
        raise TranslationError("validate_component does not run every RULES entry on get_metadata()")
    specs = None
    for n in tree.body:
        if isinstance(n, ast.AugAssign) and ast.unparse(n.target) == "RULES" and isinstance(n.op, ast.Add):
            if specs is not None:
                raise TranslationError("RULES extended twice")
            specs = n.value
        elif isinstance(n, (ast.Assign, ast.AnnAssign)) and "RULES" in ast.unparse(n).split("=")[0]:
            if ast.unparse(n.value) != "[]":
                raise TranslationError("RULES initialised with a non-empty list")
    if not isinstance(specs, ast.List):
        raise TranslationError("RULES += [...] not found")
    out = []
    for e in specs.elts:
        if not (isinstance(e, ast.Call) and ast.unparse(e.func) == "RuleSpec" and len(e.args) == 8 and not e.keywords):
            raise TranslationError("unexpected RULES entry: " + ast.unparse(e)[:80])
        code, sev = e.args[0].value, e.args[1].value
        fn = e.args[7].id
        if sev not in ("error", "warn", "info"):
            raise TranslationError("unknown severity " + sev)
        pred, diag = pred_of(fns[fn], fns)
        if pred != "PReflect" and diag is not None and not pred.startswith("(PParamsShape"):
            if diag != (code, sev):
                raise TranslationError("%s: check emits %s but the catalogue says %s/%s" % (fn, diag, code, sev))
        if pred.startswith("(PParamsShape") and (diag != ("SVA103", "error") or sev != "error"):
            raise TranslationError("%s: parameters-shape rule does not emit SVA103/error" % fn)
        out.append((code, {"error": "SError", "warn": "SWarn", "info": "SInfo"}[sev], pred))
    return out, path


KINDS = {"DataSource": "KDataSource", "PayloadSource": "KPayloadSource", "DataOperation": "KDataOperation",
         "DataProbe": "KDataProbe", "DataSink": "KDataSink", "PayloadSink": "KPayloadSink",
         "ContextProcessor": "KContextProcessor"}
CREATE = {"create_data_source_node": "NDataSource", "create_payload_source_node": "NPayloadSource",
          "create_data_sink_node": "NDataSink", "create_payload_sink_node": "NPayloadSink",
          "create_data_operation_node": "NDataOperation", "create_probe_context_injector": "NProbeInjector",
          "create_context_processor_wrapper_node": "NContextProcessor"}
NODECLS = {"_DataSourceNode": "NDataSource", "_PayloadSourceNode": "NPayloadSource", "_DataSinkNode": "NDataSink",
           "_PayloadSinkNode": "NPayloadSink", "_DataOperationNode": "NDataOperation",
           "_ProbeContextInjectorNode": "NProbeInjector", "_ContextProcessorNode": "NContextProcessor"}


def _issub(test):
    m = re.fullmatch(r"issubclass\(processor, (\w+|\([\w, ]+\))\)", ast.unparse(test))
    if not m:
        raise TranslationError("unexpected dispatch test: " + ast.unparse(test))
    return [x.strip() for x in m.group(1).strip("()").split(",")]


def _called_create(stmts):
    for st in stmts:
        for n in ast.walk(st):
            if isinstance(n, ast.Return) and isinstance(n.value, ast.Call):
                f = ast.unparse(n.value.func)
                if f.startswith("_PipelineNodeFactory."):
                    return f.split(".", 1)[1]
    return None


def translate_dispatch():
    tree, path = parse(SRC_FACTORY)
    main = find_def(tree, "_pipeline_node_factory", ast.FunctionDef)
    io = find_def(tree, "create_io_node", ast.FunctionDef)
    io_chain = []
    for st in _body(io):
        if isinstance(st, ast.If) and ast.unparse(st.test).startswith("issubclass(processor"):
            (k,) = _issub(st.test)
            io_chain.append((k, CREATE[_called_create(st.body)]))
    if [k for k, _ in io_chain] != ["DataSource", "PayloadSource", "DataSink", "PayloadSink"]:
        raise TranslationError("create_io_node: unexpected chain %s" % io_chain)
    if "context_key = node_definition.get('context_key')" not in [ast.unparse(s) for s in _body(main)]:
        raise TranslationError("_pipeline_node_factory: context_key is not read from the node definition")
    disp = []

    def walk_chain(st):
        ks = _issub(st.test)
        body_src = _src(st.body)
        created = _called_create(st.body)
        if created == "create_io_node":
            if set(ks) != {"DataSource", "PayloadSource", "DataSink", "PayloadSink"} or "context_key" in body_src:
                raise TranslationError("io branch: unexpected shape")
            for k, nk in io_chain:
                disp.append((k, nk, "KeyIgnored"))
        else:
            if len(ks) != 1 or created not in CREATE:
                raise TranslationError("dispatch branch: unexpected shape: " + ast.unparse(st.test))
            k = ks[0]
            if k == "ContextProcessor":
                # context_key is only read from the processor parameters (with_context_key variants), never from the node
                if re.search(r"(?<![\"'\w])context_key(?![\"'\w])\s*(?!=)", re.sub(r"context_key = params\.pop\('context_key', None\)|context_key=context_key", "", body_src)):
                    raise TranslationError("ContextProcessor branch uses the node-level context_key")
                pol = "KeyIgnored"
            elif "if context_key is not None:\n    raise ValueError" in body_src:
                pol = "KeyForbidden"
            elif "if not (isinstance(context_key, str) and context_key.strip()):" in body_src and "raise PipelineConfigurationError" in body_src:
                pol = "KeyRequired"
            else:
                raise TranslationError("dispatch branch %s: unknown context_key policy" % k)
            disp.append((k, CREATE[created], pol))
        for o in st.orelse:
            if isinstance(o, ast.If):
                walk_chain(o)
            elif not isinstance(o, ast.Raise):
                raise TranslationError("dispatch chain: unexpected else-branch")

    for st in _body(main):
        if isinstance(st, ast.If) and ast.unparse(st.test).startswith("issubclass(processor"):
            walk_chain(st)
    # class-name suffix and base class used by each create_* method
    suffix = {}
    fac = find_def(tree, "_PipelineNodeFactory", ast.ClassDef)
    for m in fac.body:
        if isinstance(m, ast.FunctionDef) and m.name in CREATE:
            txt = ast.unparse(m)
            mm = re.search(r"_create_class\(name=f'\{(\w+)\.__name__\}_(\w+)', base_cls=(_\w+), processor=(\w+)", txt)
            if not mm or NODECLS.get(mm.group(3)) != CREATE[m.name] or mm.group(3) != "_" + mm.group(2):
                raise TranslationError("%s: unexpected _create_class call" % m.name)
            suffix[CREATE[m.name]] = mm.group(2)
    return disp, suffix, path


def translate_nodes():
    tree, path = parse(SRC_NODES)
    lits = {}
    for cname, nk in NODECLS.items():
        cls = find_def(tree, cname, ast.ClassDef)
        dm = [m for m in cls.body if isinstance(m, ast.FunctionDef) and m.name == "_define_metadata"]
        if len(dm) != 1:
            raise TranslationError(cname + ": _define_metadata not found")
        d = None
        for n in ast.walk(dm[0]):
            if isinstance(n, ast.AnnAssign) and ast.unparse(n.target) == "component_metadata" and isinstance(n.value, ast.Dict):
                d = {k.value: v.value for k, v in zip(n.value.keys, n.value.values) if isinstance(v, ast.Constant)}
        if not d or "component_type" not in d or "wraps_component_type" not in d:
            raise TranslationError(cname + ": metadata literals not found")
        lits[nk] = (d["component_type"], d["wraps_component_type"])
    # probe node: created keys
    probe = find_def(tree, "_ProbeContextInjectorNode", ast.ClassDef)
    gck = [m for m in probe.body if isinstance(m, ast.FunctionDef) and m.name == "get_created_keys"][0]
    txt = _src(_body(gck))
    if txt == "return [cls.context_key]":
        probe_mirror = False
    elif txt in PROBE_MIRROR_SHAPES:
        probe_mirror = True
    else:
        raise TranslationError("_ProbeContextInjectorNode.get_created_keys: unknown shape: " + txt)
    return lits, probe_mirror, path


PROBE_MIRROR_SHAPES = {
    "base = list(getattr(cls.processor, 'get_created_keys', lambda: [])())\nreturn base if cls.context_key in base else base + [cls.context_key]",
}
SWEEP_PLAIN = ("created = [f'{var}_values' for var in cls._vars]\nbase_created = []\nif hasattr(cls._element, 'get_created_keys'):\n"
               "    base_created = list(cls._element.get_created_keys())\nreturn created + base_created")
SWEEP_DEDUP = ("created = [f'{var}_values' for var in cls._vars]\nbase_created = []\nif hasattr(cls._element, 'get_created_keys'):\n"
               "    base_created = list(cls._element.get_created_keys())\nreturn created + [k for k in base_created if k not in created]")
SWEEP_SOURCE = "return [f'{var}_values' for var in cls._vars]"


def translate_sweep():
    tree, path = parse(SRC_SWEEP)
    vals = {}
    for cname in ("ParametricSweepSource", "ParametricSweepOperation", "ParametricSweepProbe"):
        cls = find_def(tree, cname, ast.ClassDef)
        gck = [m for m in cls.body if isinstance(m, ast.FunctionDef) and m.name == "get_created_keys"]
        if len(gck) != 1:
            raise TranslationError(cname + ".get_created_keys not found")
        vals[cname] = _src(_body(gck[0]))
    if vals["ParametricSweepSource"] != SWEEP_SOURCE:
        raise TranslationError("ParametricSweepSource.get_created_keys: unknown shape")
    a, b = vals["ParametricSweepOperation"], vals["ParametricSweepProbe"]
    if a == b == SWEEP_PLAIN:
        return False, path
    if a == b == SWEEP_DEDUP:
        return True, path
    raise TranslationError("ParametricSweep{Operation,Probe}.get_created_keys: unknown shape")


def translate():
    rules, p1 = translate_rules()
    disp, suffix, p2 = translate_dispatch()
    lits, probe_mirror, p3 = translate_nodes()
    dedup, p4 = translate_sweep()
    for nk, (ct, wr) in lits.items():
        if suffix.get(nk) != ct:
            raise TranslationError("node class suffix %r differs from component_type %r" % (suffix.get(nk), ct))
    rtxt = ";\n    ".join("(%s, (%s, %s))" % (cq_str(c), s, p) for c, s, p in rules)
    dtxt = ";\n    ".join("(%s, (%s, %s))" % (KINDS[k], nk, pol) for k, nk, pol in disp)
    ltxt = ";\n    ".join("(%s, (%s, %s))" % (nk, cq_str(ct), cq_str(wr)) for nk, (ct, wr) in lits.items())
    text = """(* GENERATED by harness/translate/contracts.py from
   %s, %s, %s, %s — do not edit *)
From Coq Require Import List String Bool. Import ListNotations.
From SV Require Import Model.Contracts.
Open Scope string_scope.
Definition rules : list rule :=
  [ %s ].
Definition the_flags : flags := mkF %s %s.
Definition the_tables : tables :=
  mkT
  [ %s ]
  [ %s ]
  the_flags.
Definition validate_runs_all_rules : bool := true.
Definition translation_failed := false.
""" % (SRC_RULES, SRC_FACTORY, SRC_NODES, SRC_SWEEP, rtxt, cq_bool(dedup), cq_bool(probe_mirror), dtxt, ltxt)
    return text, [p1, p2, p3, p4]
