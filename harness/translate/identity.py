"""graph_builder.py / parametric_sweep_factory.py / semantic_id.py / orchestrator.py -> Gen/IdentityGen.v

Static facts (ast, fail closed):
  * canon_fields: keys of the canonical node mapping of `_canonical_node`, and that each is bound to the
    expected local; `canon["params"] = descriptor_to_json(params)`; node_json is
    json.dumps(canon, sort_keys=True, separators=(",", ":")) hashed with uuid.uuid5(_NODE_NAMESPACE, .);
    the graph mapping is {"version": 1, "nodes", "edges"} with edges {"source","target"} of consecutive uuids;
  * pipeline_id_prefix and the dumps options of compute_pipeline_id;
  * the qualified names of the three sweep classes created inside ParametricSweepFactory.create;
  * the keys of the `_preprocessor_metadata` mapping and of its `dependencies` block;
  * context_keys_sorted: whether dependencies.context_keys (or the list it copies) is passed through sorted();
  * sem_includes_sweep: whether compute_pipeline_semantic_id folds the node semantic id of a sweep node in.
Probed fact (the repair can take several shapes, so the implementation is asked):
  * enrich_on_copy: a Pipeline with a sweep node is run twice with a recording trace driver; true iff
    Pipeline.canonical_spec is not modified by the traced run.
"""
import ast
import os

from harness.translate import TranslationError, find_assign, find_def, parse
from harness.core import cq_bool, cq_list, cq_str

OUT = "IdentityGen.v"
SRC_GB = "semantiva/pipeline/graph_builder.py"
SRC_SW = "semantiva/data_processors/parametric_sweep_factory.py"
SRC_SID = "semantiva/metadata/semantic_id.py"
SRC_ORCH = "semantiva/execution/orchestrator/orchestrator.py"

FALLBACK = """From Coq Require Import List String Bool. Import ListNotations.
Open Scope string_scope.
Definition canon_fields : list string := [].
Definition pipeline_id_prefix : string := "".
Definition sweep_ref_source : string := "".
Definition sweep_ref_operation : string := "".
Definition sweep_ref_probe : string := "".
Definition sweep_meta_keys : list string := [].
Definition sweep_dep_keys : list string := [].
Definition context_keys_sorted : bool := false.
Definition enrich_on_copy : bool := false.
Definition sem_includes_sweep : bool := false.
Definition required_in_node_order : bool := false.
Definition two_number_list_is_range : bool := false.
Definition identity_translation_failed := true.
"""

EXPECT_BIND = {"role": "role", "processor_ref": "processor", "params": "params", "ports": "ports",
               "declaration_index": "declaration_index", "declaration_subindex": "declaration_subindex"}
DUMPS_KW = {"sort_keys": "True", "separators": "(',', ':')"}


def _dict_keys(d):
    if not (isinstance(d, ast.Dict) and all(isinstance(k, ast.Constant) and isinstance(k.value, str) for k in d.keys)):
        raise TranslationError("expected a dict literal with string keys: " + ast.unparse(d)[:80])
    return [k.value for k in d.keys]


def _dumps_calls(fn):
    return [n for n in ast.walk(fn) if isinstance(n, ast.Call) and ast.unparse(n.func) == "json.dumps"]


def _check_dumps(fn, arg):
    calls = _dumps_calls(fn)
    if len(calls) != 1:
        raise TranslationError("%s: expected one json.dumps call" % fn.name)
    c = calls[0]
    if [ast.unparse(a) for a in c.args] != [arg] or {k.arg: ast.unparse(k.value) for k in c.keywords} != DUMPS_KW:
        raise TranslationError("%s: unexpected json.dumps call %s" % (fn.name, ast.unparse(c)))


def probe_enrich_on_copy():
    """Run one Pipeline object with a sweep node twice under a recording trace driver."""
    import copy
    import logging
    logging.disable(logging.CRITICAL)
    try:
        from semantiva.registry import apply_profile, RegistryProfile, load_extensions
        apply_profile(RegistryProfile())
        load_extensions(["semantiva-examples"])
        from semantiva.logger import Logger
        from semantiva.pipeline import Pipeline, Payload
        from semantiva.context_processors.context_types import ContextType

        class Rec:
            def __init__(self):
                self.starts = []

            def on_pipeline_start(self, pipeline_id, run_id, canonical, meta, pipeline_input=None, **kw):
                self.starts.append(pipeline_id)

            def __getattr__(self, name):
                return lambda *a, **k: None

        nodes = [{"processor": "FloatValueDataSource",
                  "derive": {"parameter_sweep": {"parameters": {"value": "t"}, "variables": {"t": [1.0, 2.0, 3.0]},
                                                 "collection": "FloatDataCollection"}}}]
        rec = Rec()
        p = Pipeline(nodes, trace=rec, logger=Logger(level="CRITICAL"))
        before = copy.deepcopy(p.canonical_spec)
        try:
            p.process(Payload(None, ContextType()))
        except Exception:  # noqa - only pipeline_start matters
            pass
        if not rec.starts:
            raise TranslationError("probe: traced run emitted no pipeline_start")
        return p.canonical_spec == before
    finally:
        logging.disable(logging.NOTSET)


def translate():
    gb, p_gb = parse(SRC_GB)
    # ---- _canonical_node
    cn = find_def(gb, "_canonical_node", ast.FunctionDef)
    canon = find_assign(cn, "canon")
    fields = _dict_keys(canon)
    for k, v in zip(fields, canon.values):
        if k not in EXPECT_BIND or ast.unparse(v) != EXPECT_BIND[k]:
            raise TranslationError("_canonical_node: field %s bound to %s" % (k, ast.unparse(v)))
    src_cn = ast.unparse(cn)
    for needle in ("role = defn.get('role') or 'processor'", "processor = defn.get('processor')",
                   "processor = f'{processor.__module__}.{processor.__qualname__}'",
                   "params = defn.get('parameters') or {}", "ports = defn.get('ports') or {}"):
        if needle not in src_cn:
            raise TranslationError("_canonical_node: missing statement " + needle)
    # ---- build_canonical_spec
    bcs = find_def(gb, "build_canonical_spec", ast.FunctionDef)
    _check_dumps(bcs, "canon")
    src_b = ast.unparse(bcs)
    for needle in ("for declaration_index, raw in enumerate(spec)", "declaration_subindex = 0",
                   "cfg = preprocess_node_config(dict(raw))",
                   "canon = _canonical_node(cfg, declaration_index, declaration_subindex)",
                   "canon['params'] = descriptor_to_json(params)",
                   "node_uuid = str(uuid.uuid5(_NODE_NAMESPACE, node_json))",
                   "canon_with_uuid['node_uuid'] = node_uuid",
                   "edges = [{'source': node_uuids[i], 'target': node_uuids[i + 1]} for i in range(len(node_uuids) - 1)]",
                   "return ({'version': 1, 'nodes': nodes, 'edges': edges}, resolved)"):
        if needle not in src_b:
            raise TranslationError("build_canonical_spec: missing statement " + needle)
    ns = ast.unparse(find_assign(gb, "_NODE_NAMESPACE"))
    if ns != "uuid.UUID('00000000-0000-0000-0000-000000000000')":
        raise TranslationError("unexpected node namespace " + ns)
    # ---- compute_pipeline_id
    cpi = find_def(gb, "compute_pipeline_id", ast.FunctionDef)
    _check_dumps(cpi, "canonical_spec")
    ret = cpi.body[-1]
    if not (isinstance(ret, ast.Return) and isinstance(ret.value, ast.BinOp) and isinstance(ret.value.left, ast.Constant)
            and ast.unparse(ret.value.right) == "hashlib.sha256(spec_json.encode('utf-8')).hexdigest()"):
        raise TranslationError("compute_pipeline_id: unexpected return " + ast.unparse(ret))
    plid_prefix = ret.value.left.value

    # ---- sweep factory
    sw, p_sw = parse(SRC_SW)
    fac = find_def(sw, "ParametricSweepFactory", ast.ClassDef)
    create = find_def(fac, "create", ast.FunctionDef)
    base = "semantiva.data_processors.parametric_sweep_factory.ParametricSweepFactory.create.<locals>."
    refs = {}
    for n in create.body + [m for s in create.body if isinstance(s, ast.If) for m in s.body]:
        if isinstance(n, ast.ClassDef):
            b = [ast.unparse(x) for x in n.bases]
            if b in (["DataSource"], ["DataOperation"], ["DataProbe"]):
                refs[b[0]] = base + n.name
    if set(refs) != {"DataSource", "DataOperation", "DataProbe"}:
        raise TranslationError("sweep classes not found: %r" % refs)
    pm = find_def(create, "_preprocessor_metadata", ast.FunctionDef)
    ret = pm.body[-1]
    if not isinstance(ret, ast.Return):
        raise TranslationError("_preprocessor_metadata: last statement is not return")
    meta_keys = _dict_keys(ret.value)
    deps = find_assign(pm, "deps")
    dep_keys = _dict_keys(deps)
    ck = ast.unparse(deps.values[dep_keys.index("context_keys")]) if "context_keys" in dep_keys else None
    fck = ast.unparse(find_assign(create, "from_context_keys"))
    fck_plain = "[spec.key for spec in vars.values() if isinstance(spec, FromContext)]"
    if ck == "list(getattr(cls, '_from_context_keys', ()))":
        sorted_at_use = False
    elif ck == "sorted(getattr(cls, '_from_context_keys', ()))":
        sorted_at_use = True
    else:
        raise TranslationError("dependencies.context_keys: unexpected expression %s" % ck)
    if fck == fck_plain:
        sorted_at_def = False
    elif fck == "sorted(%s)" % fck_plain or fck == "sorted((spec.key for spec in vars.values() if isinstance(spec, FromContext)))":
        sorted_at_def = True
    else:
        raise TranslationError("from_context_keys: unexpected expression %s" % fck)
    ctx_sorted = sorted_at_use or sorted_at_def

    # ---- semantic id
    sid, p_sid = parse(SRC_SID)
    psem = ast.unparse(find_def(sid, "compute_pipeline_semantic_id", ast.FunctionDef))
    a, b = "compute_node_semantic_id(" in psem, "preprocessor_metadata" in psem
    if a and b:
        if "entry['node_semantic_id'] = compute_node_semantic_id(pre)" not in psem:
            raise TranslationError("compute_pipeline_semantic_id: sweep metadata folded in through an unknown shape")
        sem_sweep = True
    elif not a and not b:
        sem_sweep = False
    else:
        raise TranslationError("compute_pipeline_semantic_id: unexpected use of preprocessor metadata")

    # ---- facts owned by other properties that the identity model consumes
    insp, p_insp = parse("semantiva/inspection/builder.py")
    bpi = ast.unparse(find_def(insp, "build_pipeline_inspection", ast.FunctionDef))
    if "required_context_keys = all_required_params - all_created_keys" in bpi:
        node_order = False
    elif "if name not in key_origin or name in deleted_keys" in bpi and "required_context_keys = set(all_required_params)" in bpi:
        node_order = True
    else:
        raise TranslationError("build_pipeline_inspection: unknown computation of required_context_keys")
    npp, p_npp = parse("semantiva/pipeline/node_preprocess.py")
    cvs = ast.unparse(find_def(npp, "_convert_var_specs", ast.FunctionDef))
    two_range = "len(spec) == 2 and all((isinstance(x, (int, float)) for x in spec))" in cvs
    if not two_range and "if isinstance(spec, list):\n            processed[var] = SequenceSpec(spec)" not in cvs:
        raise TranslationError("_convert_var_specs: unknown treatment of list specifications")

    p_orch = os.path.join(os.path.dirname(p_gb), "..", "execution", "orchestrator", "orchestrator.py")
    p_orch = os.path.normpath(p_orch)
    enrich_copy = probe_enrich_on_copy()

    text = """(* GENERATED by harness/translate/identity.py from %s, %s, %s;
   enrich_on_copy is a PROBED fact (two traced runs of one Pipeline object) — do not edit *)
From Coq Require Import List String Bool. Import ListNotations.
Open Scope string_scope.
Definition canon_fields : list string := %s.
Definition pipeline_id_prefix : string := %s.
Definition sweep_ref_source : string := %s.
Definition sweep_ref_operation : string := %s.
Definition sweep_ref_probe : string := %s.
Definition sweep_meta_keys : list string := %s.
Definition sweep_dep_keys : list string := %s.
Definition context_keys_sorted : bool := %s.
Definition enrich_on_copy : bool := %s.
Definition sem_includes_sweep : bool := %s.
Definition required_in_node_order : bool := %s.
Definition two_number_list_is_range : bool := %s.
Definition identity_translation_failed := false.
""" % (SRC_GB, SRC_SW, SRC_SID, cq_list(fields, cq_str), cq_str(plid_prefix), cq_str(refs["DataSource"]),
       cq_str(refs["DataOperation"]), cq_str(refs["DataProbe"]), cq_list(meta_keys, cq_str), cq_list(dep_keys, cq_str),
       cq_bool(ctx_sorted), cq_bool(enrich_copy), cq_bool(sem_sweep), cq_bool(node_order), cq_bool(two_range))
    return text, [p_gb, p_sw, p_sid, p_orch, p_insp, p_npp]
