"""semantiva/inspection/builder.py, validator.py -> Gen/InspectGen.v

Structural facts selecting the variant of the inspection model:
  order_sensitive : required context keys accumulated in node order
                    (vs. the global difference all_required_params - all_created_keys)
  track_last_data : type-flow check against the last data-carrying node
                    (vs. adjacent nodes only, skipping pairs around context-only nodes)
  origin_last     : key_origin records the last creator (vs. setdefault = first creator)
  deleted_at_entry: deleted-key check against the keys deleted before the node
  default_second_pass: after the node loop, default-classified parameters whose name is a required
                    context key and was not deleted before the node are re-classified as context-supplied
"""
import ast

from harness.core import cq_bool
from harness.translate import TranslationError, find_def, parse

OUT = "InspectGen.v"
FALLBACK = """From SV Require Import Model.Inspect.
Definition impl : variant := mkVariant false false false false false.
Definition translation_failed := true.
"""


SECOND_PASS = """for node_inspection, deleted_at_entry in defaulted:
    for name in list(node_inspection.default_params):
        if name in all_required_params and name not in deleted_at_entry:
            del node_inspection.default_params[name]
            node_inspection.config_params.pop(name, None)
            node_inspection.context_params[name] = None"""


def second_pass_fact(fn):
    """True iff build_pipeline_inspection re-classifies shadowed defaults after the node loop, in exactly the
    modelled shape; False iff nothing of the kind exists; anything else fails closed."""
    main = [n for n in fn.body if isinstance(n, ast.For) and ast.unparse(n.iter).startswith("enumerate(")]
    if len(main) != 1:
        raise TranslationError("build_pipeline_inspection: main node loop not found")
    after = fn.body[fn.body.index(main[0]) + 1:]
    loops = [n for n in after if isinstance(n, (ast.For, ast.While))]
    src = ast.unparse(fn)
    mentions = "defaulted" in src or any("default_params" in ast.unparse(n) for n in after if not isinstance(n, ast.Return))
    if not loops:
        if mentions:
            raise TranslationError("build_pipeline_inspection: default_params touched after the node loop in an unknown way")
        return False
    if len(loops) != 1 or ast.unparse(loops[0]) != SECOND_PASS:
        raise TranslationError("build_pipeline_inspection: unknown loop after the node loop")
    body = ast.unparse(main[0])
    tail = "inspection_nodes.append(node_inspection)\n    if default_params:\n        defaulted.append((node_inspection, deleted_at_entry))"
    if not body.rstrip().endswith(tail) or body.count("defaulted") != 1:
        raise TranslationError("build_pipeline_inspection: defaulted list is not filled at the end of the node loop")
    if src.count("defaulted") != 3 or "defaulted: List[tuple[NodeInspection, set[str]]] = []" not in src:
        raise TranslationError("build_pipeline_inspection: defaulted list used in an unknown way")
    if "deleted_at_entry = set(deleted_keys)" not in body or body.index("deleted_at_entry = set(deleted_keys)") > body.index("for key in created_keys:"):
        raise TranslationError("build_pipeline_inspection: deleted_at_entry is not the set of keys deleted before the node")
    # nothing between the second pass and the return may touch the reports again
    rest = after[after.index(loops[0]) + 1:]
    for n in rest:
        t = ast.unparse(n)
        if ("node_inspection" in t or "inspection_nodes" in t) and not isinstance(n, ast.Return):
            raise TranslationError("build_pipeline_inspection: reports modified after the second pass")
    return True


def translate():
    tree, p1 = parse("semantiva/inspection/builder.py")
    fn = find_def(tree, "build_pipeline_inspection", ast.FunctionDef)
    src = ast.unparse(fn)
    if "inspect_origin(name=name, processor_cls=processor.__class__, processor_config=node.processor_config, key_origin=key_origin, deleted_keys=deleted_keys)" not in src:
        raise TranslationError("build_pipeline_inspection: parameter classification is not inspect_origin(...)")
    if "missing_deleted = (required_params & deleted_keys) - suppressed_keys" in src:
        at_entry = False
    elif "missing_deleted = required_params & deleted_at_entry" in src and "deleted_at_entry = set(deleted_keys)" in src \
            and src.index("deleted_at_entry = set(deleted_keys)") < src.index("for key in created_keys:"):
        at_entry = True
    else:
        raise TranslationError("build_pipeline_inspection: deleted-key check not found")
    # required keys
    if "required_context_keys = all_required_params - all_created_keys" in src and "all_required_params.update(required_params)" in src:
        order_sensitive = False
    elif "required_context_keys = set(all_required_params)" in src and \
            "all_required_params.update((name for name in required_params if name not in key_origin or name in deleted_keys))" in src:
        order_sensitive = True
    else:
        raise TranslationError("build_pipeline_inspection: unknown required-context-key computation")
    # key origin of created keys
    loop = [n for n in ast.walk(fn) if isinstance(n, ast.For) and ast.unparse(n.iter) == "created_keys"]
    if len(loop) != 1:
        raise TranslationError("build_pipeline_inspection: created-keys loop not found")
    body = ast.unparse(loop[0])
    if "key_origin.setdefault(key, index)" in body:
        origin_last = False
    elif "key_origin[key] = index" in body:
        origin_last = True
    else:
        raise TranslationError("build_pipeline_inspection: unknown key_origin update")
    if "deleted_keys.remove(key)" not in body:
        raise TranslationError("build_pipeline_inspection: recreated keys are not un-deleted")
    if "key_origin[node.context_key] = index" not in src:
        raise TranslationError("build_pipeline_inspection: probe key origin not overwritten")

    second_pass = second_pass_fact(fn)

    vtree, p2 = parse("semantiva/inspection/validator.py")
    vf = find_def(vtree, "_validate_data_flow_compatibility", ast.FunctionDef)
    vsrc = ast.unparse(vf)
    if "for i in range(len(inspection.nodes) - 1):" in vsrc and "next_node = inspection.nodes[i + 1]" in vsrc \
            and "if current_node.output_type is None or next_node.input_type is None:" in vsrc:
        track_last = False
    elif "for next_node in inspection.nodes:" in vsrc and "current_node = None" in vsrc \
            and vsrc.count("if next_node.output_type is not None:") == 2:
        track_last = True
    else:
        raise TranslationError("_validate_data_flow_compatibility: unknown shape")
    if "if not _is_compatible(current_node.output_type, next_node.input_type):" not in vsrc:
        raise TranslationError("_validate_data_flow_compatibility: the per-edge test is not `not _is_compatible(prev.output, next.input)`")
    comp = ast.unparse(find_def(vtree, "_is_compatible", ast.FunctionDef))
    if "prev_out_type == next_in_type or issubclass(prev_out_type, next_in_type)" not in comp:
        raise TranslationError("_is_compatible: unknown rule")
    text = """(* GENERATED from semantiva/inspection/builder.py and validator.py — do not edit *)
From SV Require Import Model.Inspect.
Definition impl : variant := mkVariant %s %s %s %s %s.
Definition translation_failed := false.
""" % (cq_bool(order_sensitive), cq_bool(track_last), cq_bool(origin_last), cq_bool(at_entry), cq_bool(second_pass))
    return text, [p1, p2]
