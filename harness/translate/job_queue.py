"""semantiva/execution/job_queue/{worker,queue_orchestrator}.py -> Gen/JobQueueGen.v

Structural facts, each an AST pattern (fail closed on any other shape):
  * worker_reports_failures : in `worker_loop`, the `except Exception` handler of the per-message `try` publishes a
    message on `jobs.<id>.status` (instead of only logging) AND the master's status loop calls `set_exception` on a
    pending Future.  Exactly one of the two is a half-repaired tree -> translation error.
  * future_resolved_by_job_id : in `run_forever`, inside `for msg in sub:` the job id is read from the message
    (`msg.context.get_value("job_id")` / `msg.metadata[...]`) and the Future is taken from `self.pending_futures`
    with exactly that name as key (subscript / .pop / .get).  `popitem` / `next(iter(..))` -> false (arrival order).
  * non_list_config_rejected_silently : the branch `if not isinstance(pcfg, list) or not all(...)` (and the handler of
    a failing `load_pipeline_from_yaml`) only logs, acknowledges and `continue`s -- no status message.
  * falsy_payload_replaced : the worker computes its input as `msg.data or NoDataType()` (truth-value test: an empty
    collection is replaced) rather than `... if msg.data is not None else ...`.
"""
import ast
import os

from harness import core
from harness.core import cq_bool
from harness.translate import TranslationError, find_def

OUT = "JobQueueGen.v"
WORKER = "semantiva/execution/job_queue/worker.py"
MASTER = "semantiva/execution/job_queue/queue_orchestrator.py"

FALLBACK = """From SV Require Model.JobQueue.
Definition worker_reports_failures : bool := false.
Definition future_resolved_by_job_id : bool := false.
Definition non_list_config_rejected_silently : bool := true.
Definition falsy_payload_replaced : bool := true.
Definition context_copied_at_enqueue : bool := false.
Definition facts : JobQueue.facts :=
  JobQueue.mkFacts worker_reports_failures future_resolved_by_job_id non_list_config_rejected_silently.
Definition translation_failed := true.
"""


def _u(n):
    return ast.unparse(n)


def _is_status_publish(call):
    """transport.publish(f"jobs.{...}.status", ...)"""
    if not (isinstance(call, ast.Call) and isinstance(call.func, ast.Attribute) and call.func.attr == "publish"):
        return False
    if not call.args:
        return False
    a = call.args[0]
    if isinstance(a, ast.JoinedStr):
        lits = "".join(v.value for v in a.values if isinstance(v, ast.Constant) and isinstance(v.value, str))
        return lits.startswith("jobs.") and lits.endswith(".status")
    if isinstance(a, ast.Constant) and isinstance(a.value, str):
        return a.value.endswith(".status")
    # a helper variable: accept only if its name says so
    return isinstance(a, ast.Name) and "status" in a.id


def _publishes_status(stmts):
    for st in stmts:
        for n in ast.walk(st):
            if _is_status_publish(n):
                return True
    return False


def _calls_helper_publishing(stmts, helpers):
    for st in stmts:
        for n in ast.walk(st):
            if isinstance(n, ast.Call) and isinstance(n.func, ast.Name) and n.func.id in helpers:
                return True
    return False


def _has(stmts, kind):
    return any(isinstance(n, kind) for st in stmts for n in ast.walk(st))


def _msg_loops(fn, var="msg"):
    return [n for n in ast.walk(fn) if isinstance(n, ast.For) and isinstance(n.target, ast.Name) and n.target.id == var]


def analyse(repo=None):
    repo = repo or core.REPO
    wpath, mpath = os.path.join(repo, WORKER), os.path.join(repo, MASTER)
    wtree, mtree = ast.parse(open(wpath).read()), ast.parse(open(mpath).read())

    # ------------------------------------------------------------------ worker
    wl = find_def(wtree, "worker_loop", ast.FunctionDef)
    # local helper functions (module level or nested) whose body publishes a status message
    helpers = {f.name for f in ast.walk(wtree) if isinstance(f, ast.FunctionDef) and f.name != "worker_loop"
               and _publishes_status(f.body)}

    def reports(stmts):
        return _publishes_status(stmts) or _calls_helper_publishing(stmts, helpers)

    loops = _msg_loops(wl)
    if len(loops) != 1:
        raise TranslationError("worker_loop: expected exactly one `for msg in sub` loop, found %d" % len(loops))
    tries = [s for s in loops[0].body if isinstance(s, ast.Try)]
    if len(tries) != 1:
        raise TranslationError("worker_loop: expected exactly one per-message try statement, found %d" % len(tries))
    tr = tries[0]
    if len(tr.handlers) != 1 or tr.handlers[0].type is None or _u(tr.handlers[0].type) not in ("Exception", "BaseException", "(Exception, SystemExit)"):   # (a wider handler reports more failures, never fewer)
        raise TranslationError("worker_loop: per-message try must have exactly one `except Exception` handler")
    if tr.finalbody and reports(tr.finalbody):
        raise TranslationError("worker_loop: status published in a finally block (unmodelled)")
    if not _publishes_status(tr.body):
        raise TranslationError("worker_loop: the success path does not publish jobs.<id>.status")
    worker_reports_exc = reports(tr.handlers[0].body)
    if _has(tr.handlers[0].body, (ast.Raise, ast.Break, ast.Return)):
        raise TranslationError("worker_loop: the failure handler leaves the message loop (unmodelled)")

    # rejected configurations
    nonlist = [n for n in ast.walk(tr) if isinstance(n, ast.If) and "isinstance(pcfg, list)" in _u(n.test)
               and isinstance(n.test, (ast.BoolOp, ast.UnaryOp)) and _u(n.test).startswith("not isinstance(pcfg, list)")]
    if len(nonlist) != 1:
        raise TranslationError("worker_loop: `if not isinstance(pcfg, list) ...` rejection branch not found")
    if not _has(nonlist[0].body, ast.Continue) and not _has(nonlist[0].body, ast.Raise):
        raise TranslationError("worker_loop: the rejection branch neither continues nor raises (unmodelled)")
    # a `raise` inside the rejection branch reaches the except handler: reported iff the handler reports
    nonlist_reports = reports(nonlist[0].body) or (_has(nonlist[0].body, ast.Raise) and worker_reports_exc)
    yaml_ifs = [n for n in ast.walk(tr) if isinstance(n, ast.If) and _u(n.test) == "isinstance(pcfg, str)"]
    if len(yaml_ifs) != 1:
        raise TranslationError("worker_loop: `if isinstance(pcfg, str)` YAML branch not found")
    ytries = [s for s in yaml_ifs[0].body if isinstance(s, ast.Try)]
    if len(ytries) == 1 and len(ytries[0].handlers) == 1:
        hb = ytries[0].handlers[0].body
        yaml_reports = reports(hb) or (_has(hb, ast.Raise) and worker_reports_exc)
        if not _has(hb, (ast.Continue, ast.Raise)):
            raise TranslationError("worker_loop: YAML failure handler neither continues nor raises (unmodelled)")
    elif not ytries:
        yaml_reports = worker_reports_exc      # the load error propagates to the per-message handler
    else:
        raise TranslationError("worker_loop: unexpected shape of the YAML loading branch")
    rejected_silently = not (nonlist_reports and yaml_reports)

    # payload preparation
    das = [n for n in ast.walk(tr) if isinstance(n, ast.Assign) and len(n.targets) == 1 and _u(n.targets[0]) == "data"]
    if len(das) != 1:
        raise TranslationError("worker_loop: assignment of the worker's input `data` not found")
    v = das[0].value
    if isinstance(v, ast.BoolOp) and isinstance(v.op, ast.Or) and _u(v.values[0]) == "msg.data":
        falsy = True
    elif isinstance(v, ast.IfExp) and _u(v.test) in ("msg.data is not None", "msg.data is None"):
        falsy = False
    elif _u(v) == "msg.data":
        falsy = False
    else:
        raise TranslationError("worker_loop: unknown shape of `data = ...`: %s" % _u(v))

    # ------------------------------------------------------------------ master
    rf = find_def(mtree, "run_forever", ast.FunctionDef)
    mloops = _msg_loops(rf)
    if len(mloops) != 1:
        raise TranslationError("run_forever: expected exactly one `for msg in sub` loop, found %d" % len(mloops))
    ml = mloops[0]
    idvars = []
    for n in ast.walk(ml):
        if isinstance(n, ast.Assign) and len(n.targets) == 1 and isinstance(n.targets[0], ast.Name):
            src = _u(n.value)
            if src.startswith("msg.") and "job_id" in src:
                idvars.append(n.targets[0].id)
    pf_uses = []      # how self.pending_futures is used inside the loop
    for n in ast.walk(ml):
        if isinstance(n, ast.Subscript) and _u(n.value) == "self.pending_futures":
            pf_uses.append(("key", _u(n.slice)))
        elif isinstance(n, ast.Call) and isinstance(n.func, ast.Attribute) and _u(n.func.value) == "self.pending_futures":
            if n.func.attr in ("pop", "get") and n.args:
                pf_uses.append(("key", _u(n.args[0])))
            elif n.func.attr in ("popitem", "values", "items", "keys"):
                pf_uses.append(("order", n.func.attr))
            else:
                raise TranslationError("run_forever: unknown use of pending_futures: %s" % _u(n))
        elif isinstance(n, ast.Call) and _u(n.func) in ("iter", "next", "list") and "self.pending_futures" in _u(n):
            pf_uses.append(("order", _u(n.func)))
    if not pf_uses:
        raise TranslationError("run_forever: the status loop never touches self.pending_futures")
    if any(k == "order" for k, _ in pf_uses):
        by_id = False
    elif idvars and all(k == "key" and x in idvars for k, x in pf_uses):
        by_id = True
    else:
        raise TranslationError("run_forever: Future lookup neither by the message's job_id nor by order: %r" % (pf_uses,))
    sets_result = any(isinstance(n, ast.Call) and isinstance(n.func, ast.Attribute) and n.func.attr == "set_result" for n in ast.walk(ml))
    sets_exc = any(isinstance(n, ast.Call) and isinstance(n.func, ast.Attribute) and n.func.attr == "set_exception" for n in ast.walk(ml))
    if not sets_result:
        raise TranslationError("run_forever: no set_result in the status loop")
    if not any(isinstance(s, ast.Break) for s in ml.body):
        raise TranslationError("run_forever: the status loop no longer handles one message per iteration (unmodelled)")
    if worker_reports_exc != sets_exc:
        raise TranslationError("half-repaired tree: worker publishes failure statuses = %s, master calls set_exception = %s"
                               % (worker_reports_exc, sets_exc))
    if not rejected_silently and not sets_exc:
        raise TranslationError("half-repaired tree: rejected configurations are reported but the master never calls set_exception")
    # enqueue(): the Future is in pending_futures BEFORE the job is handed to the master's queue (the model's enqueue is
    # one atomic step: a status message can only arrive for a registered job).  Any other order fails closed.
    enq = find_def(mtree, "enqueue", ast.FunctionDef)
    reg = [n.lineno for n in ast.walk(enq) if isinstance(n, ast.Assign) and len(n.targets) == 1
           and isinstance(n.targets[0], ast.Subscript) and _u(n.targets[0].value) == "self.pending_futures"]
    puts = [n.lineno for n in ast.walk(enq) if isinstance(n, ast.Call) and _u(n.func) == "self.job_queue.put"]
    if len(reg) != 1 or len(puts) != 1:
        raise TranslationError("enqueue: expected one registration in pending_futures and one job_queue.put (found %d / %d)" % (len(reg), len(puts)))
    if not reg[0] < puts[0]:
        raise TranslationError("enqueue: the Future is registered after the job is queued (a status can arrive for an unregistered job)")
    # ---- the context object put on the queue: a deep copy made inside enqueue (fact context_copied_at_enqueue), or the caller's
    # object as it is
    put = [n for n in ast.walk(enq) if isinstance(n, ast.Call) and _u(n.func) == "self.job_queue.put"][0]
    if len(put.args) != 1 or not isinstance(put.args[0], ast.Tuple) or len(put.args[0].elts) != 5:
        raise TranslationError("enqueue: job_queue.put is not given a 5-tuple")
    ctx_el = _u(put.args[0].elts[3])
    if ctx_el == "context or ContextType()":
        copied = False
    elif ctx_el == "job_context":
        assigns = [_u(n) for n in ast.walk(enq) if isinstance(n, ast.Assign) and _u(n.targets[0]) == "job_context"]
        if assigns != ["job_context = context or ContextType()", "job_context = copy.deepcopy(job_context)"]:
            raise TranslationError("enqueue: job_context is not (context or ContextType()) followed by its deep copy: %r" % assigns)
        copied = True
    else:
        raise TranslationError("enqueue: unknown context expression on the queue: " + ctx_el)
    return {"worker_reports_failures": worker_reports_exc and sets_exc, "future_resolved_by_job_id": by_id,
            "non_list_config_rejected_silently": rejected_silently, "falsy_payload_replaced": falsy,
            "context_copied_at_enqueue": copied, "paths": [wpath, mpath]}


def translate():
    f = analyse()
    text = """(* GENERATED from %s and %s by harness/translate/job_queue.py -- do not edit *)
From SV Require Model.JobQueue.
(* the worker's `except Exception` handler publishes a failure status and the master calls set_exception *)
Definition worker_reports_failures : bool := %s.
(* the master takes the Future from pending_futures by the job_id read from the status message *)
Definition future_resolved_by_job_id : bool := %s.
(* a configuration that is not a list of dicts (or an unloadable YAML path) is only logged and dropped *)
Definition non_list_config_rejected_silently : bool := %s.
(* the worker's input is `msg.data or NoDataType()` (truth-value test) *)
Definition falsy_payload_replaced : bool := %s.
(* enqueue hands every job a copy (copy.deepcopy) of the context it was given *)
Definition context_copied_at_enqueue : bool := %s.
Definition facts : JobQueue.facts :=
  JobQueue.mkFacts worker_reports_failures future_resolved_by_job_id non_list_config_rejected_silently.
Definition translation_failed := false.
""" % (WORKER, MASTER, cq_bool(f["worker_reports_failures"]), cq_bool(f["future_resolved_by_job_id"]),
       cq_bool(f["non_list_config_rejected_silently"]), cq_bool(f["falsy_payload_replaced"]), cq_bool(f["context_copied_at_enqueue"]))
    return text, f["paths"]
