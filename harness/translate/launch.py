"""cli/__init__.py, trace/runtime/run_space_launch.py, run_space_identity.py, inspection/builder.py,
execution/orchestrator/orchestrator.py, trace/drivers/jsonl.py -> Gen/LaunchGen.v

Static facts (ast, fail closed):
  * stop_after_failure: in `_run` the `try` whose handlers catch KeyboardInterrupt / Exception ENCLOSES the
    `for idx, run_values in enumerate(runs)` loop (true) or sits inside the loop body (false); the loop body calls
    pipeline.set_run_metadata, pipeline.process and then counts `runs_completed += 1`; the `finally` emits the end
    record with summary keys planned_runs / completed_runs; EXIT_RUNTIME_ERROR;
  * fk_field_names: the keys the orchestrator puts into run_space_kwargs for on_pipeline_start, and that the JSONL
    driver copies each of them into the pipeline_start record;
  * launch_id_modes: the decision chain of RunSpaceLaunchManager.create_launch (provided id, idempotency key, fresh uuid)
    and the hash prefix of the idempotency branch; the RSCF / RSM prefixes of RunSpaceIdentityService.compute;
  * spec_id_paths_agree: whether inspection (`_compute_run_space_spec_id`) canonicalises the parsed dataclass
    (`asdict(_parse_run_space_block(...))`, as the runtime does) or the raw YAML mapping.
Probed facts:
  * spec_id_paths_agree is cross-checked on a minimal mapping (static and probed answers must coincide);
  * enrich_on_copy: probe of harness/translate/identity.py (two traced runs of one Pipeline object with a sweep node).
"""
import ast
import os

from harness.core import cq_bool, cq_list, cq_str
from harness.translate import TranslationError, find_assign, find_def, parse

OUT = "LaunchGen.v"
SRC_CLI = "semantiva/cli/__init__.py"
SRC_LAUNCH = "semantiva/trace/runtime/run_space_launch.py"
SRC_IDENT = "semantiva/trace/runtime/run_space_identity.py"
SRC_BUILDER = "semantiva/inspection/builder.py"
SRC_ORCH = "semantiva/execution/orchestrator/orchestrator.py"
SRC_JSONL = "semantiva/trace/drivers/jsonl.py"

FALLBACK = """From Coq Require Import List String Bool ZArith. Import ListNotations.
From SV Require Import Model.Launch.
Open Scope string_scope.
Definition spec_id_paths_agree : bool := false.
Definition stop_after_failure : bool := false.
Definition enrich_on_copy : bool := false.
Definition fk_field_names : list string := [].
Definition launch_id_modes : list string := [].
Definition rscf_prefix : string := "".
Definition rsm_prefix : string := "".
Definition rsl_prefix : string := "".
Definition exit_runtime_error : Z := 0%Z.
Definition end_summary_keys : list string := [].
Definition impl : variant := mkVariant enrich_on_copy stop_after_failure spec_id_paths_agree.
Definition launch_translation_failed := true.
"""

EXPECT_FK = ["run_space_launch_id", "run_space_attempt", "run_space_index", "run_space_context"]
MIN_RS = {"blocks": [{"mode": "by_position", "context": {"value": [1.0, 2.0]}}]}


def _calls(node):
    return [ast.unparse(n.func) for n in ast.walk(node) if isinstance(n, ast.Call)]


def _is_run_loop(n):
    return isinstance(n, ast.For) and ast.unparse(n.iter) == "enumerate(runs)"


def _handler_names(t):
    out = []
    for h in t.handlers:
        out.append(ast.unparse(h.type) if h.type is not None else "*")
    return out


def _stop_after_failure(run_fn):
    loops = [n for n in ast.walk(run_fn) if _is_run_loop(n)]
    if len(loops) != 1:
        raise TranslationError("_run: expected exactly one loop over enumerate(runs), found %d" % len(loops))
    loop = loops[0]
    calls = _calls(loop)
    for need in ("pipeline.set_run_metadata", "pipeline.process"):
        if need not in calls:
            raise TranslationError("_run: run loop does not call " + need)
    body_src = [ast.unparse(s) for s in loop.body]
    if "runs_completed += 1" not in body_src:
        inner = [ast.unparse(s) for t in loop.body if isinstance(t, ast.Try) for s in t.body + t.orelse]
        if "runs_completed += 1" not in inner:
            raise TranslationError("_run: runs_completed is not counted in the run loop")
    i_proc = next(i for i, s in enumerate(body_src) if "pipeline.process(" in s)
    outer = [t for t in ast.walk(run_fn) if isinstance(t, ast.Try) and any(s is loop for s in t.body)]
    inner = [t for t in loop.body if isinstance(t, ast.Try) and "pipeline.process" in _calls(ast.Module(body=t.body, type_ignores=[]))]
    if outer and not inner:
        t = outer[0]
        hs = _handler_names(t)
        if "Exception" not in hs or "KeyboardInterrupt" not in hs:
            raise TranslationError("_run: handlers around the run loop are %r" % hs)
        fin = "\n".join(ast.unparse(s) for s in t.finalbody)
        for need in ("run_space_emitter.emit_end(", "'planned_runs': run_count", "'completed_runs': runs_completed"):
            if need not in fin:
                raise TranslationError("_run: finally block lacks " + need)
        if "'failed'" not in fin or "'interrupted'" not in fin:
            raise TranslationError("_run: finally block does not set the failed / interrupted status")
        hsrc = {ast.unparse(h.type): "\n".join(ast.unparse(s) for s in h.body) for h in t.handlers if h.type is not None}
        if "exit_code = EXIT_RUNTIME_ERROR" not in hsrc.get("Exception", ""):
            raise TranslationError("_run: Exception handler does not set EXIT_RUNTIME_ERROR")
        # the completed counter must follow the call that can raise
        if not any(s == "runs_completed += 1" for s in body_src[i_proc + 1:]):
            raise TranslationError("_run: runs_completed is not incremented after pipeline.process")
        return True
    if inner and not outer:
        hs = _handler_names(inner[0])
        if "Exception" not in hs:
            raise TranslationError("_run: handler inside the run loop catches %r" % hs)
        if any(isinstance(n, ast.Break) for h in inner[0].handlers for n in ast.walk(h)):
            return True
        return False
    raise TranslationError("_run: unknown arrangement of try / run loop")


def _fk_fields():
    orch, p_orch = parse(SRC_ORCH)
    ex = find_def(orch, "execute", ast.FunctionDef)
    names = []
    for n in ast.walk(ex):
        if isinstance(n, ast.Assign) and len(n.targets) == 1 and isinstance(n.targets[0], ast.Subscript) \
                and ast.unparse(n.targets[0].value) == "run_space_kwargs" and isinstance(n.targets[0].slice, ast.Constant):
            names.append((n.lineno, n.targets[0].slice.value))
    names = [k for _, k in sorted(names)]
    if names != EXPECT_FK:
        raise TranslationError("orchestrator: run_space_kwargs keys are %r" % names)
    src = ast.unparse(ex)
    if "trace.on_pipeline_start(pipeline_id, run_id, canonical, meta, pipeline_input=payload, **run_space_kwargs)" not in src:
        raise TranslationError("orchestrator: on_pipeline_start is not called with **run_space_kwargs")
    for need in ("run_space_kwargs['run_space_launch_id'] = fk['run_space_launch_id']", "run_space_kwargs['run_space_attempt'] = fk['run_space_attempt']",
                 "run_space_kwargs['run_space_index'] = run_space_index", "run_space_kwargs['run_space_context'] = run_space_context"):
        if need not in src:
            raise TranslationError("orchestrator: missing " + need)
    js, p_js = parse(SRC_JSONL)
    ops = ast.unparse(find_def(js, "on_pipeline_start", ast.FunctionDef))
    for k in EXPECT_FK:
        if "record['%s'] = %s" % (k, k) not in ops:
            raise TranslationError("jsonl driver: pipeline_start does not copy " + k)
    return names, [p_orch, p_js]


def _launch_modes():
    tree, p = parse(SRC_LAUNCH)
    fn = find_def(tree, "create_launch", ast.FunctionDef)
    body = [s for s in fn.body if not (isinstance(s, ast.Expr) and isinstance(s.value, ast.Constant))]
    if len(body) != 4 or not isinstance(body[0], ast.If) or not isinstance(body[1], ast.If):
        raise TranslationError("create_launch: unexpected statement sequence")
    if ast.unparse(body[0].test) != "provided_launch_id" or ast.unparse(body[0].body[-1]) != "return RunSpaceLaunch(id=provided_launch_id, attempt=attempt)":
        raise TranslationError("create_launch: first branch is not the provided id")
    if ast.unparse(body[1].test) != "idempotency_key":
        raise TranslationError("create_launch: second branch is not the idempotency key")
    src = "\n".join(ast.unparse(s) for s in body[1].body)
    if "basis = run_space_inputs_id or run_space_spec_id" not in src or "return RunSpaceLaunch(id=token, attempt=attempt)" not in src:
        raise TranslationError("create_launch: idempotency branch has an unknown shape")
    tok = find_assign(body[1], "token")
    want = "hashlib.sha256(%s + basis.encode('ascii') + b':' + idempotency_key.encode('utf-8')).hexdigest()"
    prefix = None
    for n in ast.walk(tok):
        if isinstance(n, ast.Constant) and isinstance(n.value, bytes) and n.value != b":":
            prefix = n.value
    if prefix is None or ast.unparse(tok) != want % repr(prefix):
        raise TranslationError("create_launch: token expression " + ast.unparse(tok))
    if ast.unparse(body[2]) != "identifier = self._uuid7_hex()" or ast.unparse(body[3]) != "return RunSpaceLaunch(id=identifier, attempt=attempt)":
        raise TranslationError("create_launch: fallback branch")
    return ["provided_launch_id", "idempotency_key", "generated"], prefix.decode(), p


def _identity_prefixes():
    tree, p = parse(SRC_IDENT)
    fn = ast.unparse(find_def(tree, "compute", ast.FunctionDef))
    for need in ("spec_bytes = self._rscf_v1(run_space_spec)", "spec_id = self._hash(b'semantiva:rscf1:', spec_bytes)",
                 "inputs_payload = self._rsm_v1_bytes(spec_id, fingerprints)", "inputs_id = self._hash(b'semantiva:rsm1:', inputs_payload)",
                 "inputs_id = None"):
        if need not in fn:
            raise TranslationError("RunSpaceIdentityService.compute: missing " + need)
    rs = ast.unparse(find_def(tree, "_rscf_v1", ast.FunctionDef))
    for need in ("return {key: normalize(value[key]) for key in sorted(value)}", "json.dumps(normalized, separators=(',', ':'), ensure_ascii=False)"):
        if need not in rs:
            raise TranslationError("_rscf_v1: missing " + need)
    rsm = ast.unparse(find_def(tree, "_rsm_v1_bytes", ast.FunctionDef))
    for need in ("items.sort(key=lambda entry: (entry['role'], entry['uri']))", "payload = {'spec_id': spec_id, 'inputs': items}"):
        if need not in rsm:
            raise TranslationError("_rsm_v1_bytes: missing " + need)
    return "semantiva:rscf1:", "semantiva:rsm1:", p


def _inspect_path():
    tree, p = parse(SRC_BUILDER)
    fn = find_def(tree, "_compute_run_space_spec_id", ast.FunctionDef)
    src = ast.unparse(fn)
    calls = _calls(fn)
    through_dataclass = any(c.endswith("_parse_run_space_block") for c in calls) and any(c.endswith("asdict") for c in calls)
    raw = "_normalize_run_space(run_space)" in src and not through_dataclass
    if through_dataclass == raw:
        raise TranslationError("_compute_run_space_spec_id: unknown shape")
    if "semantiva:rscf1:" not in src and "RunSpaceIdentityService" not in src:
        raise TranslationError("_compute_run_space_spec_id: RSCF prefix not found")
    return through_dataclass, p


def probe_paths_agree():
    import logging
    logging.disable(logging.CRITICAL)
    try:
        from dataclasses import asdict
        from semantiva.configurations.load_pipeline_from_yaml import _parse_run_space_block
        from semantiva.inspection.builder import _compute_run_space_spec_id
        from semantiva.trace.runtime.run_space_identity import RunSpaceIdentityService
        a = _compute_run_space_spec_id(MIN_RS)
        b = RunSpaceIdentityService().compute(asdict(_parse_run_space_block(MIN_RS))).spec_id
        return a == b
    finally:
        logging.disable(logging.NOTSET)


def translate():
    cli, p_cli = parse(SRC_CLI)
    run_fn = find_def(cli, "_run", ast.FunctionDef)
    stop = _stop_after_failure(run_fn)
    exit_rt = find_assign(cli, "EXIT_RUNTIME_ERROR")
    if not (isinstance(exit_rt, ast.Constant) and isinstance(exit_rt.value, int)):
        raise TranslationError("EXIT_RUNTIME_ERROR is not an integer literal")
    src_run = ast.unparse(run_fn)
    for need in ("run_space_spec_dict = asdict(pipeline_cfg.run_space)", "identity_service.compute(run_space_spec_dict, base_dir=base_dir)",
                 "provided_launch_id=args.run_space_launch_id", "idempotency_key=args.run_space_idempotency_key",
                 "run_context = dict(ctx_dict)", "run_context.update(run_values)",
                 "metadata = {'trace_context': trace_context, 'run_space_index': idx, 'run_space_context': dict(run_context)}",
                 "run_space_planned_run_count=run_count"):
        if need not in src_run:
            raise TranslationError("_run: missing statement " + need)
    fk, p_fk = _fk_fields()
    modes, rsl, p_l = _launch_modes()
    rscf, rsm, p_i = _identity_prefixes()
    agree_static, p_b = _inspect_path()
    agree_probe = probe_paths_agree()
    if agree_static != agree_probe:
        raise TranslationError("spec_id_paths_agree: static reading says %s, probe on a minimal mapping says %s" % (agree_static, agree_probe))
    from harness.translate.identity import probe_enrich_on_copy
    enrich = probe_enrich_on_copy()
    text = """(* GENERATED by harness/translate/launch.py from %s, %s, %s, %s, %s, %s;
   enrich_on_copy is a PROBED fact; spec_id_paths_agree is read statically and cross-checked by a probe -- do not edit *)
From Coq Require Import List String Bool ZArith. Import ListNotations.
From SV Require Import Model.Launch.
Open Scope string_scope.
Definition spec_id_paths_agree : bool := %s.
Definition stop_after_failure : bool := %s.
Definition enrich_on_copy : bool := %s.
Definition fk_field_names : list string := %s.
Definition launch_id_modes : list string := %s.
Definition rscf_prefix : string := %s.
Definition rsm_prefix : string := %s.
Definition rsl_prefix : string := %s.
Definition exit_runtime_error : Z := %d%%Z.
Definition end_summary_keys : list string := ["planned_runs"; "completed_runs"].
Definition impl : variant := mkVariant enrich_on_copy stop_after_failure spec_id_paths_agree.
Definition launch_translation_failed := false.
""" % (SRC_CLI, SRC_LAUNCH, SRC_IDENT, SRC_BUILDER, SRC_ORCH, SRC_JSONL, cq_bool(agree_static), cq_bool(stop), cq_bool(enrich),
       cq_list(fk, cq_str), cq_list(modes, cq_str), cq_str(rscf), cq_str(rsm), cq_str(rsl), exit_rt.value)
    return text, [p_cli, p_l, p_i, p_b] + p_fk
