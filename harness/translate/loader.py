"""semantiva/configurations/load_pipeline_from_yaml.py (_parse_run_space_block) -> Gen/LoaderGen.v

Facts read from the source (fail closed on any unknown shape):
  d_combine       the default in `block.get("combine", <default>)`
  d_max_runs      the default in `block.get("max_runs", <default>)`, converted by `int(...)`
  d_source_mode   the default in `source_entry.get("mode", <default>)`: a mode string, or the name of the variable
                  holding the enclosing block's mode (then a source follows its block)
  d_dry_truthy    `cfg.dry_run = bool(block.get("dry_run", False))` (truthiness); an identity / equality test against
                  True is the other recognised variant
  schema defaults of RunSpaceV1Config / RunSource are read too and must agree with the parser's (one source of truth
  for a specification built through the API and one parsed from YAML)
"""
import ast

from harness.translate import TranslationError, find_def, parse

OUT = "LoaderGen.v"
SRC = "semantiva/configurations/load_pipeline_from_yaml.py"
SCHEMA = "semantiva/configurations/schema.py"

FALLBACK = """From Coq Require Import List String ZArith. Import ListNotations.
From SV Require Import Model.RunSpace Model.Loader.
Definition impl : loader_facts := mkLoaderFacts ByPosition 0 None false.
Definition schema_agrees : bool := false.
Definition translation_failed := true.
"""
MODES = {"by_position": "ByPosition", "combinatorial": "Combinatorial"}


def _get_default(fn, subject, key):
    """the default d in the unique call  <subject>.get(<key>, d)  inside fn"""
    hits = [n for n in ast.walk(fn) if isinstance(n, ast.Call) and isinstance(n.func, ast.Attribute) and n.func.attr == "get"
            and ast.unparse(n.func.value) == subject and n.args and isinstance(n.args[0], ast.Constant) and n.args[0].value == key]
    if len(hits) != 1:
        raise TranslationError("expected exactly one %s.get(%r, ...), found %d" % (subject, key, len(hits)))
    call = hits[0]
    if len(call.args) != 2:
        raise TranslationError("%s.get(%r) has no explicit default" % (subject, key))
    return call, call.args[1]


def _class_default(tree, cls, field):
    c = find_def(tree, cls, ast.ClassDef)
    for n in c.body:
        if isinstance(n, ast.AnnAssign) and isinstance(n.target, ast.Name) and n.target.id == field and n.value is not None:
            return n.value
    raise TranslationError("%s.%s has no default in schema.py" % (cls, field))


def translate():
    tree, path = parse(SRC)
    stree, spath = parse(SCHEMA)
    fn = find_def(tree, "_parse_run_space_block", ast.FunctionDef)

    _, d = _get_default(fn, "block", "combine")
    if not (isinstance(d, ast.Constant) and d.value in MODES):
        raise TranslationError("combine default is not a mode string: " + ast.unparse(d))
    d_combine = d.value

    call, d = _get_default(fn, "block", "max_runs")
    if not (isinstance(d, ast.Constant) and isinstance(d.value, int) and not isinstance(d.value, bool)):
        raise TranslationError("max_runs default is not an integer literal: " + ast.unparse(d))
    d_max_runs = d.value
    # the value is converted by int(...) before it is stored
    stores = [n for n in ast.walk(fn) if isinstance(n, ast.Assign) and len(n.targets) == 1 and ast.unparse(n.targets[0]) == "cfg.max_runs"]
    if len(stores) != 1 or ast.unparse(stores[0].value) != "int(max_runs)":
        raise TranslationError("cfg.max_runs is not assigned int(max_runs)")

    call, d = _get_default(fn, "source_entry", "mode")
    if isinstance(d, ast.Constant) and d.value in MODES:
        d_source_mode = "(Some %s)" % MODES[d.value]
    elif isinstance(d, ast.Name):
        # must be the variable that holds the enclosing block's mode
        holds = [n for n in ast.walk(fn) if isinstance(n, ast.Assign) and len(n.targets) == 1 and isinstance(n.targets[0], ast.Name)
                 and n.targets[0].id == d.id and 'entry.get("mode"' in ast.unparse(n.value).replace("'", '"')]
        if not holds:
            raise TranslationError("source mode default %s is not the block's mode variable" % d.id)
        d_source_mode = "None"
    else:
        raise TranslationError("source mode default has an unknown shape: " + ast.unparse(d))

    stores = [n for n in ast.walk(fn) if isinstance(n, ast.Assign) and len(n.targets) == 1 and ast.unparse(n.targets[0]) == "cfg.dry_run"]
    if len(stores) != 1:
        raise TranslationError("expected exactly one assignment to cfg.dry_run")
    rhs = ast.unparse(stores[0].value).replace("'", '"')
    if rhs == 'bool(block.get("dry_run", False))':
        d_dry = True
    elif rhs in ('block.get("dry_run", False) is True', 'block.get("dry_run", False) == True', 'block.get("dry_run") is True'):
        d_dry = False
    else:
        raise TranslationError("cfg.dry_run has an unknown shape: " + rhs)

    # schema defaults (what a specification built through the API gets)
    sc = _class_default(stree, "RunSpaceV1Config", "combine")
    sm = _class_default(stree, "RunSpaceV1Config", "max_runs")
    sd = _class_default(stree, "RunSpaceV1Config", "dry_run")
    ss = _class_default(stree, "RunSource", "mode")
    agrees = (isinstance(sc, ast.Constant) and sc.value == d_combine and isinstance(sm, ast.Constant) and sm.value == d_max_runs
              and isinstance(sd, ast.Constant) and sd.value is False
              and isinstance(ss, ast.Constant) and d_source_mode == "(Some %s)" % MODES.get(ss.value, "?"))

    text = ("(* GENERATED from %s and %s by harness/translate/loader.py -- do not edit *)\n"
            "From Coq Require Import List String ZArith. Import ListNotations.\n"
            "From SV Require Import Model.RunSpace Model.Loader.\n"
            "Definition impl : loader_facts := mkLoaderFacts %s (%d)%%Z %s %s.\n"
            "Definition schema_agrees : bool := %s.\n"
            "Definition translation_failed := false.\n"
            % (SRC, SCHEMA, MODES[d_combine], d_max_runs, d_source_mode, "true" if d_dry else "false", "true" if agrees else "false"))
    return text, [path, spath]
