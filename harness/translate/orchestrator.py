"""semantiva/execution/orchestrator/orchestrator.py, trace/drivers/jsonl.py, trace/model.py,
trace/schema/*.json  ->  Gen/OrchestratorGen.v      (facts used by C06 / C07 / C10)

Structural facts, each an AST pattern (fail closed on any other shape):
  * instantiate_inside_try : `self._instantiate_nodes(...)` is called inside the body of the outer `try` of
    SemantivaOrchestrator.execute (the one whose `finally` flushes and closes the driver); false when it is a
    statement of `execute` before that `try`;
  * node_handler_catches_base / outer_handler_catches_base : the per-node handler (the `try` inside the node
    loop whose handler emits the error SER) and the outer handler name `BaseException` (or are bare) rather
    than `Exception`;
  * handlers_reraise : both handlers end with a bare `raise`;
  * ser_in_both_arms, end_in_both_arms : on_node_event is called in the per-node try body and in its handler;
    on_pipeline_end in the outer try body (after the loop) and in the outer handler;
  * start_before_try : on_pipeline_start is called before the outer try (and before _instantiate_nodes);
  * flush_close_in_finally : the outer `finally` calls `.flush()` and `.close()` on the driver;
  * iso_now_utc / driver_now_utc (timestamps_use_utc = both) : `_iso_now` / `JsonlTraceDriver._now_timestamp`
    take the time with an explicit UTC zone (`datetime.now(timezone.utc)`, `datetime.now(tz=...utc)`,
    `datetime.now(UTC)`, `datetime.utcnow()`), not the zone-less local `datetime.now()`;
  * driver_drops_spec : on_pipeline_start retries without `pipeline_spec_canonical` when json.dumps raises TypeError;
  * the top-level keys the driver writes per record type (dict literals of jsonl.py, dataclass fields of
    SERRecord with the None-defaulted ones optional);
  * schema tables from trace/schema/*.json: per record type (through trace_registry_v1.json, `allOf`/`$ref`
    resolved) the required top-level fields, the record_type const, and the enums of SER status /
    parameter_sources / check result.
Probed facts (the minimal failing input of a finding is run on the implementation in this process; documented
as probed, not read from the AST):
  * default_params_reported : FloatMultiplyOperationWithDefault with context factor=10 -> SER reports
    factor / "context" (and with an empty context factor / "default");
  * metadata_json_safe : a traced sweep over YAML dates neither raises nor drops pipeline_spec_canonical;
  * pipeline_id_stable : two traced runs of one Pipeline object with a sweep node carry the same pipeline_id;
  * opaque_raises_before_start : the traced sweep over YAML dates raises before pipeline_start is emitted (the ids
    hashed before the start record include the sweep metadata).
"""
import ast
import glob
import json
import os

from harness import core
from harness.core import cq_bool, cq_list, cq_pair, cq_str
from harness.translate import TranslationError, find_def, parse

OUT = "OrchestratorGen.v"
ORCH = "semantiva/execution/orchestrator/orchestrator.py"
JSONL = "semantiva/trace/drivers/jsonl.py"
MODEL = "semantiva/trace/model.py"

FALLBACK = """From Coq Require Import List String Bool. Import ListNotations.
From SV Require Import Model.Trace.
Open Scope string_scope.
Definition instantiate_inside_try := false.
Definition node_handler_catches_base := false.
Definition outer_handler_catches_base := false.
Definition handlers_reraise := false.
Definition ser_in_both_arms := false.
Definition end_in_both_arms := false.
Definition start_before_try := false.
Definition flush_close_in_finally := false.
Definition iso_now_utc := false.
Definition driver_now_utc := false.
Definition timestamps_use_utc := false.
Definition driver_drops_spec := false.
Definition default_params_reported := false.
Definition metadata_json_safe := false.
Definition pipeline_id_stable := false.
Definition opaque_raises_before_start := false.
Definition fresh_nodes_per_run := false.
Definition gen_facts : facts := mkFacts false false false false false false false false false false false.
Definition gen_layout : layout := mkLayout [] [] [] [] [].
Definition gen_schema : schema := mkSchema [] [] [] [] [].
Definition translation_failed := true.
"""


def _calls(node, attr):
    """all Call nodes under `node` (or list of nodes) whose function is `<something>.attr`"""
    out = []
    for root in (node if isinstance(node, list) else [node]):
        for n in ast.walk(root):
            if isinstance(n, ast.Call) and isinstance(n.func, ast.Attribute) and n.func.attr == attr:
                out.append(n)
    return out


def _handler_base(h, where):
    if h.type is None:
        return True
    if isinstance(h.type, ast.Name) and h.type.id in ("BaseException", "Exception"):
        return h.type.id == "BaseException"
    raise TranslationError("%s: handler catches %s (expected Exception or BaseException)" % (where, ast.unparse(h.type)))


def _reraises(h):
    last = h.body[-1]
    return isinstance(last, ast.Raise) and last.exc is None


def _uses_utc(fn, where):
    calls = [c for c in ast.walk(fn) if isinstance(c, ast.Call) and isinstance(c.func, ast.Attribute)
             and c.func.attr in ("now", "utcnow") and ast.unparse(c.func.value) in ("datetime", "datetime.datetime", "_dt.datetime")]
    if len(calls) != 1:
        raise TranslationError("%s: expected exactly one datetime.now()/utcnow() call, found %d" % (where, len(calls)))
    c = calls[0]
    if c.func.attr == "utcnow":
        return True
    args = [ast.unparse(a) for a in c.args] + [ast.unparse(k.value) for k in c.keywords if k.arg == "tz"]
    if not args:
        return False
    if len(args) == 1 and args[0] in ("timezone.utc", "datetime.timezone.utc", "UTC", "datetime.UTC", "_dt.timezone.utc"):
        return True
    raise TranslationError("%s: datetime.now(%s): unknown zone argument" % (where, ", ".join(args)))


def fresh_nodes_fact(cls, ex):
    """True iff every execute() builds its own node instances: `nodes, node_defs = self._instantiate_nodes(resolved_spec, logger)`
    in execute, and _instantiate_nodes is a pure builder (fresh local lists, one _pipeline_node_factory call per node
    definition in a loop over its argument, no state kept on self, nothing looked up in a table that outlives the call).
    False iff it consults or fills state that survives the call; anything else fails closed."""
    inst = [m for m in cls.body if isinstance(m, ast.FunctionDef) and m.name == "_instantiate_nodes"]
    if len(inst) != 1:
        raise TranslationError("_instantiate_nodes not found")
    fn = inst[0]
    calls = [n for n in ast.walk(ex) if isinstance(n, ast.Assign) and _calls(n, "_instantiate_nodes")]
    if len(calls) != 1 or ast.unparse(calls[0].targets[0]).strip("()") != "nodes, node_defs" or \
            not ast.unparse(calls[0].value).startswith("self._instantiate_nodes("):
        raise TranslationError("execute: nodes are not obtained as `nodes, node_defs = self._instantiate_nodes(...)`")
    for n in ast.walk(ex):      # the node loop must run over these nodes
        if isinstance(n, ast.For) and "nodes" in ast.unparse(n.iter) and "enumerate(nodes)" not in ast.unparse(n.iter) \
                and "zip(" not in ast.unparse(n.iter) and ast.unparse(n.iter) != "nodes":
            raise TranslationError("execute: unexpected iteration over nodes: " + ast.unparse(n.iter))
    uses_self = [n for n in ast.walk(fn) if isinstance(n, ast.Attribute) and isinstance(n.value, ast.Name) and n.value.id == "self"]
    globals_used = [n for n in ast.walk(fn) if isinstance(n, (ast.Global, ast.Nonlocal))]
    factory = [n for n in ast.walk(fn) if isinstance(n, ast.Call) and ast.unparse(n.func) == "_pipeline_node_factory"]
    loops = [n for n in fn.body if isinstance(n, ast.For)]
    arg = fn.args.args[1].arg if len(fn.args.args) > 1 else None
    shape_ok = (len(factory) == 1 and len(loops) == 1 and ast.unparse(loops[0].iter) == arg and
                any(isinstance(n, ast.Call) and n is factory[0] for n in ast.walk(loops[0])) and
                isinstance(fn.body[-1], ast.Return) and ast.unparse(fn.body[-1].value) == "(nodes, node_defs)")
    if uses_self or globals_used:
        # state that survives the call is consulted: instances may be shared between runs
        return False
    if not shape_ok:
        raise TranslationError("_instantiate_nodes: unknown shape")
    # module-level tables consulted by name inside the builder (a cache outside self)
    def walk_no_annotations(node):
        for f, v in ast.iter_fields(node):
            if f in ("annotation", "returns"):
                continue
            for c in (v if isinstance(v, list) else [v]):
                if isinstance(c, ast.AST):
                    yield c
                    yield from walk_no_annotations(c)
    names = {n.id for st in fn.body for n in [st] + list(walk_no_annotations(st)) if isinstance(n, ast.Name) and isinstance(n.ctx, ast.Load)}
    allowed = {"nodes", "node_defs", "node_def", "params", "nd", "node", "logger", arg, "instantiate_from_descriptor", "dict",
               "_pipeline_node_factory", "list"}
    if names - allowed:
        raise TranslationError("_instantiate_nodes: reads unknown names %s" % sorted(names - allowed))
    return True


def structural():
    tree, p_orch = parse(ORCH)
    cls = find_def(tree, "SemantivaOrchestrator", ast.ClassDef)
    ex = [m for m in cls.body if isinstance(m, ast.FunctionDef) and m.name == "execute"]
    if len(ex) != 1:
        raise TranslationError("SemantivaOrchestrator.execute not found")
    ex = ex[0]
    outer = [s for s in ex.body if isinstance(s, ast.Try) and s.finalbody]
    if len(outer) != 1:
        raise TranslationError("execute: expected exactly one top-level try/finally, found %d" % len(outer))
    outer = outer[0]
    pos = ex.body.index(outer)
    before = ex.body[:pos]
    if len(outer.handlers) != 1:
        raise TranslationError("execute: outer try has %d handlers" % len(outer.handlers))
    oh = outer.handlers[0]
    # instantiate
    inst_before = _calls(before, "_instantiate_nodes")
    inst_inside = _calls(outer.body, "_instantiate_nodes")
    if len(inst_before) + len(inst_inside) != 1:
        raise TranslationError("execute: _instantiate_nodes is called %d times" % (len(inst_before) + len(inst_inside)))
    if inst_before and not any(isinstance(s, ast.Assign) and _calls(s, "_instantiate_nodes") for s in before):
        raise TranslationError("execute: _instantiate_nodes before the try is not a plain top-level assignment")
    inside = bool(inst_inside)
    # pipeline_start before the try and before instantiation
    st_calls = _calls(before, "on_pipeline_start")
    if len(st_calls) != 1 or _calls(outer, "on_pipeline_start"):
        raise TranslationError("execute: on_pipeline_start is not emitted exactly once before the protected region")
    start_before = True
    if inst_before and inst_before[0].lineno < st_calls[0].lineno:
        start_before = False
    # nothing but the known bookkeeping may sit between the start record and the protected region: any other method
    # call there is work whose failure leaves a dangling pipeline_start (not covered by instantiate_inside_try)
    for stmt in before:
        if stmt.lineno <= st_calls[0].lineno:
            continue
        for c in ast.walk(stmt):
            if isinstance(c, ast.Call) and isinstance(c.func, ast.Attribute) and isinstance(c.func.value, ast.Name) \
                    and c.func.value.id == "self" and c.func.attr not in ("_collect_env_pins", "_instantiate_nodes"):
                raise TranslationError("execute: self.%s(...) is called between pipeline_start and the protected region" % c.func.attr)
    # node loop and per-node try
    loops = [s for s in outer.body if isinstance(s, ast.For)]
    if len(loops) != 1:
        raise TranslationError("execute: expected one node loop in the protected region")
    loop = loops[0]
    if inside:
        li = outer.body.index(loop)
        if not any(_calls(s, "_instantiate_nodes") for s in outer.body[:li]):
            raise TranslationError("execute: _instantiate_nodes is inside the try but not before the node loop")
    ntry = [s for s in loop.body if isinstance(s, ast.Try)]
    if len(ntry) != 1 or len(ntry[0].handlers) != 1 or ntry[0].finalbody:
        raise TranslationError("execute: expected one per-node try/except in the node loop")
    ntry = ntry[0]
    nh = ntry.handlers[0]
    if not _calls(ntry.body, "_submit_and_wait"):
        raise TranslationError("execute: the per-node try does not contain the node execution")
    node_base = _handler_base(nh, "per-node handler")
    outer_base = _handler_base(oh, "outer handler")
    reraise = _reraises(nh) and _reraises(oh)
    ser_both = bool(_calls(ntry.body, "on_node_event")) and bool(_calls(nh.body, "on_node_event"))
    after_loop = outer.body[outer.body.index(loop) + 1:]
    end_both = bool(_calls(after_loop, "on_pipeline_end")) and bool(_calls(oh.body, "on_pipeline_end"))
    fin_flush = bool(_calls(outer.finalbody, "flush")) and bool(_calls(outer.finalbody, "close"))
    iso = [m for m in cls.body if isinstance(m, ast.FunctionDef) and m.name == "_iso_now"]
    if len(iso) != 1:
        raise TranslationError("_iso_now not found")
    iso_utc = _uses_utc(iso[0], "_iso_now")
    for name in ("_start_timing", "_end_timing"):
        fn = [m for m in cls.body if isinstance(m, ast.FunctionDef) and m.name == name]
        if len(fn) != 1 or not _calls(fn[0], "_iso_now"):
            raise TranslationError("%s does not take its timestamp from _iso_now" % name)

    jtree, p_jsonl = parse(JSONL)
    drv = find_def(jtree, "JsonlTraceDriver", ast.ClassDef)
    meth = {m.name: m for m in drv.body if isinstance(m, ast.FunctionDef)}
    for need in ("_now_timestamp", "on_pipeline_start", "on_node_event", "on_pipeline_end", "flush", "close"):
        if need not in meth:
            raise TranslationError("JsonlTraceDriver.%s not found" % need)
    drv_utc = _uses_utc(meth["_now_timestamp"], "_now_timestamp")

    def literal_keys(fn):
        ds = [s for s in fn.body if isinstance(s, (ast.Assign, ast.AnnAssign)) and isinstance(s.value, ast.Dict)
              and ast.unparse(s.targets[0] if isinstance(s, ast.Assign) else s.target) == "record"]
        if len(ds) != 1:
            raise TranslationError("%s: expected one `record = {...}` literal" % fn.name)
        keys = []
        for k in ds[0].value.keys:
            if not (isinstance(k, ast.Constant) and isinstance(k.value, str)):
                raise TranslationError("%s: non-literal record key" % fn.name)
            keys.append(k.value)
        for k, v in zip(ds[0].value.keys, ds[0].value.values):
            if k.value == "timestamp" and ast.unparse(v) != "self._now_timestamp()":
                raise TranslationError("%s: timestamp is not self._now_timestamp()" % fn.name)
        return keys
    start_keys = literal_keys(meth["on_pipeline_start"])
    end_keys = literal_keys(meth["on_pipeline_end"])
    drops = False
    for t in [s for s in ast.walk(meth["on_pipeline_start"]) if isinstance(s, ast.Try)]:
        for h in t.handlers:
            if h.type is not None and ast.unparse(h.type) == "TypeError" and \
                    any(ast.unparse(c).startswith("record.pop('pipeline_spec_canonical'") for c in _calls(h.body, "pop")):
                drops = True
    if "pipeline_spec_canonical" not in start_keys:
        raise TranslationError("on_pipeline_start: record has no pipeline_spec_canonical")
    src = ast.unparse(meth["on_node_event"])
    if "asdict(event)" not in src or "if v is not None" not in src:
        raise TranslationError("on_node_event: record is not asdict(event) minus None-valued fields")
    csrc = ast.unparse(meth["close"])
    if "self._file.close()" not in csrc or "self._file = None" not in csrc:
        raise TranslationError("close(): unexpected shape")

    mtree, p_model = parse(MODEL)
    ser = find_def(mtree, "SERRecord", ast.ClassDef)
    ser_fields, ser_opt = [], []
    for s in ser.body:
        if isinstance(s, ast.AnnAssign) and isinstance(s.target, ast.Name):
            if s.value is None:
                ser_fields.append(s.target.id)
            elif isinstance(s.value, ast.Constant) and s.value.value is None:
                ser_opt.append(s.target.id)
            else:
                raise TranslationError("SERRecord.%s has a non-None default" % s.target.id)
    fresh_nodes = fresh_nodes_fact(cls, ex)
    facts = dict(fresh_nodes_per_run=fresh_nodes, instantiate_inside_try=inside, node_handler_catches_base=node_base, outer_handler_catches_base=outer_base,
                 handlers_reraise=reraise, ser_in_both_arms=ser_both, end_in_both_arms=end_both, start_before_try=start_before,
                 flush_close_in_finally=fin_flush, iso_now_utc=iso_utc, driver_now_utc=drv_utc, driver_drops_spec=drops)
    layout = dict(start=start_keys, end=end_keys, ser=ser_fields, ser_opt=ser_opt)
    return facts, layout, [p_orch, p_jsonl, p_model]


def schema_tables():
    d = os.path.join(core.REPO, "semantiva", "trace", "schema")
    docs, paths = {}, []
    for p in sorted(glob.glob(os.path.join(d, "*.schema.json"))):
        doc = json.load(open(p))
        docs[doc["$id"]] = doc
        paths.append(p)
    rp = os.path.join(d, "trace_registry_v1.json")
    table = json.load(open(rp))["records"]
    paths.append(rp)

    def resolve(base_id, ref):
        if ref.startswith("./"):
            return base_id.rsplit("/", 1)[0] + "/" + ref[2:]
        return ref

    def flatten(doc, base_id, seen=()):
        """-> (required top-level names, properties dict) with allOf / $ref resolved"""
        req, props = list(doc.get("required", [])), dict(doc.get("properties", {}))
        if "$ref" in doc:
            rid = resolve(base_id, doc["$ref"])
            if rid not in docs or rid in seen:
                raise TranslationError("schema $ref %s cannot be resolved" % doc["$ref"])
            r2, p2 = flatten(docs[rid], rid, seen + (rid,))
            req += r2
            props.update(p2)
        for sub in doc.get("allOf", []):
            r2, p2 = flatten(sub, base_id, seen)
            req += r2
            for k, v in p2.items():
                props[k] = dict(props.get(k, {}), **v)
        for kw in ("anyOf", "oneOf", "not", "if"):
            if kw in doc:
                raise TranslationError("schema keyword %s is not handled" % kw)
        return req, props
    required, consts = [], []
    for rt, sid in sorted(table.items()):
        if sid not in docs:
            raise TranslationError("registry maps %s to unknown schema %s" % (rt, sid))
        req, props = flatten(docs[sid], sid)
        required.append((rt, sorted(set(req))))
        c = props.get("record_type", {}).get("const")
        if c is None:
            raise TranslationError("schema of %s has no record_type const" % rt)
        consts.append((rt, c))
    serdoc = docs[table["ser"]]
    try:
        status_enum = serdoc["properties"]["status"]["enum"]
        source_enum = serdoc["properties"]["processor"]["properties"]["parameter_sources"]["additionalProperties"]["enum"]
        result_enum = serdoc["$defs"]["check"]["properties"]["result"]["enum"]
    except KeyError as ex:
        raise TranslationError("SER schema: enum not found: %s" % ex)
    return dict(required=required, consts=consts, status=status_enum, source=source_enum, result=result_enum), paths


def probes():
    """Minimal failing inputs of F-C07-b, F-C10-a/F-C06-c and F-C04-b run on the implementation (probed facts)."""
    from harness.lib import tracelib as tl
    res = {}
    nodes = [{"k": "src", "cfg": {"value": 3}}, {"k": "muldef"}]
    r = tl.run_traced(nodes, None, {"factor": 10})
    sers = [x for x in r.records if x.get("record_type") == "ser"]
    r2 = tl.run_traced(nodes, None, {})
    sers2 = [x for x in r2.records if x.get("record_type") == "ser"]
    ok = len(sers) == 2 and len(sers2) == 2 \
        and sers[1]["processor"]["parameter_sources"].get("factor") == "context" \
        and sers[1]["processor"]["parameters"].get("factor") == 10.0 \
        and sers2[1]["processor"]["parameter_sources"].get("factor") == "default" \
        and sers2[1]["processor"]["parameters"].get("factor") == 2.0
    res["default_params_reported"] = bool(ok)
    r = tl.run_traced([{"k": "datesweep", "n": 2, "value": 1}], None, {})
    starts = [x for x in r.records if x.get("record_type") == "pipeline_start"]
    res["metadata_json_safe"] = bool(r.exc is None and starts and "pipeline_spec_canonical" in starts[0])
    # the traced run raises while the ids are hashed, before pipeline_start is emitted
    res["opaque_raises_before_start"] = bool(r.exc is not None and not starts)
    sw = [{"k": "sweep", "elem": "src", "vars": [("t", ("seq", [1, 2]))], "exprs": [("value", ("var", "t"))],
           "mode": "combinatorial", "broadcast": False}]
    a = tl.run_traced(sw, None, {}, keep_dir=True)
    b = tl.run_traced(sw, None, {}, pipe=a.pipe, driver=a.driver, path=a.path, mode=a.mode)
    import shutil
    shutil.rmtree(a.own_dir, ignore_errors=True)
    pa = [x.get("pipeline_id") for x in a.records if x.get("record_type") == "pipeline_start"]
    pb = [x.get("pipeline_id") for x in b.records if x.get("record_type") == "pipeline_start"]
    if not pa or not pb:
        raise TranslationError("probe pipeline_id_stable: no pipeline_start record")
    res["pipeline_id_stable"] = bool(pa == pb)
    return res


def translate():
    facts, layout, sources = structural()
    sch, spaths = schema_tables()
    pr = probes()
    facts.update(pr)
    facts["timestamps_use_utc"] = facts["iso_now_utc"] and facts["driver_now_utc"]
    order = ["instantiate_inside_try", "node_handler_catches_base", "outer_handler_catches_base", "handlers_reraise",
             "ser_in_both_arms", "end_in_both_arms", "start_before_try", "flush_close_in_finally", "iso_now_utc",
             "driver_now_utc", "timestamps_use_utc", "driver_drops_spec", "default_params_reported", "metadata_json_safe",
             "pipeline_id_stable", "opaque_raises_before_start", "fresh_nodes_per_run"]
    lines = ["(* GENERATED by harness/translate/orchestrator.py from %s, %s, %s and trace/schema/*.json -- do not edit." % (ORCH, JSONL, MODEL),
             "   default_params_reported, metadata_json_safe, pipeline_id_stable are PROBED facts (minimal failing inputs run on the implementation). *)",
             "From Coq Require Import List String Bool. Import ListNotations.",
             "From SV Require Import Model.Trace.",
             "Open Scope string_scope."]
    for k in order:
        lines.append("Definition %s : bool := %s." % (k, cq_bool(facts[k])))
    lines.append("Definition gen_facts : facts := mkFacts instantiate_inside_try node_handler_catches_base outer_handler_catches_base "
                 "end_in_both_arms flush_close_in_finally iso_now_utc driver_now_utc default_params_reported metadata_json_safe pipeline_id_stable opaque_raises_before_start.")
    lines.append("Definition gen_layout : layout := mkLayout %s %s %s %s %s." % (
        cq_list(layout["start"], cq_str), cq_list(["pipeline_spec_canonical"] if facts["driver_drops_spec"] else [], cq_str),
        cq_list(layout["end"], cq_str), cq_list(layout["ser"], cq_str), cq_list(layout["ser_opt"], cq_str)))
    lines.append("Definition gen_schema : schema := mkSchema %s %s %s %s %s." % (
        cq_list([cq_pair(cq_str(rt), cq_list(req, cq_str)) for rt, req in sch["required"]]),
        cq_list([cq_pair(cq_str(rt), cq_str(c)) for rt, c in sch["consts"]]),
        cq_list(sch["status"], cq_str), cq_list(sch["source"], cq_str), cq_list(sch["result"], cq_str)))
    lines.append("Definition translation_failed := false.")
    return "\n".join(lines) + "\n", sources + spaths
