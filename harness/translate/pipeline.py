"""semantiva/pipeline/_param_resolution.py, pipeline/nodes/nodes.py -> Gen/PipelineGen.v

Facts:
  * resolution_order: the ordered decision chain of resolve_runtime_value
    (config / context / default, then KeyError);
  * inspect_order: the same for inspect_origin (config / context(not deleted) / default / required);
  * reserved parameter names; class-name patterns allowed to use **kwargs;
  * probe_sweep_publishes: whether _ProbeContextInjectorNode hands the pipeline context to the
    probe processor (processor.observer_context) so that a swept probe can publish <var>_values;
  * data nodes gate on issubclass(type(data), input_type) before resolving parameters.
"""
import ast

from harness.core import cq_bool, cq_list, cq_str
from harness.translate import TranslationError, find_assign, find_def, parse

OUT = "PipelineGen.v"
FALLBACK = """From Coq Require Import List String. Import ListNotations.
Inductive rsrc := RCfg | RCtx | RDflt.
Definition resolution_order : list rsrc := [].
Definition inspect_order : list rsrc := [].
Definition probe_sweep_publishes := false.
Definition gate_before_resolve := false.
Definition two_element_list_is_range := true.
Definition combinatorial_sorts_names := false.
Definition none_value_is_noop := true.
Definition reserved_names : list string := [].
Definition translation_failed := true.
"""

ATOMS_RUNTIME = {
    "name in processor_config": ("RCfg", "processor_config[name]"),
    "name in context.keys()": ("RCtx", "context.get_value(name)"),
    "d is not _NO_DEFAULT": ("RDflt", "d"),
}


def _chain(fn, atoms, final_raise):
    order = []
    body = [s for s in fn.body if not (isinstance(s, ast.Expr) and isinstance(s.value, ast.Constant))]
    for st in body:
        if isinstance(st, ast.If):
            test = ast.unparse(st.test)
            if test not in atoms:
                raise TranslationError("%s: unknown test %r" % (fn.name, test))
            tag, ret = atoms[test]
            if not (len(st.body) == 1 and isinstance(st.body[0], ast.Return) and not st.orelse):
                raise TranslationError("%s: branch of %r is not a single return" % (fn.name, test))
            if ret is not None and ast.unparse(st.body[0].value) != ret:
                raise TranslationError("%s: branch of %r returns %s" % (fn.name, test, ast.unparse(st.body[0].value)))
            order.append(tag)
        elif isinstance(st, ast.Assign) and ast.unparse(st) == "d = _default_for(processor_cls, name)":
            continue
        elif isinstance(st, ast.Raise) and final_raise:
            if not ast.unparse(st.exc).startswith("KeyError("):
                raise TranslationError("%s: final raise is not KeyError" % fn.name)
            break
        elif isinstance(st, ast.Return) and not final_raise:
            break
        else:
            raise TranslationError("%s: unexpected statement %s" % (fn.name, ast.unparse(st)[:80]))
    return order


def translate():
    tree, p1 = parse("semantiva/pipeline/_param_resolution.py")
    rt = find_def(tree, "resolve_runtime_value", ast.FunctionDef)
    order = _chain(rt, ATOMS_RUNTIME, True)
    io = find_def(tree, "inspect_origin", ast.FunctionDef)
    iorder = _chain(io, {
        "name in processor_config": ("RCfg", "('config', None, None)"),
        "name in key_origin and name not in deleted_keys": ("RCtx", "('context', key_origin.get(name), None)"),
        "d is not _NO_DEFAULT": ("RDflt", "('default', None, d)"),
    }, False)
    reserved = sorted(e.value for e in find_assign(tree, "_RESERVED_NAMES").elts)

    ntree, p2 = parse("semantiva/pipeline/nodes/nodes.py")
    pnode = find_def(ntree, "_ProbeContextInjectorNode", ast.ClassDef)
    meth = [m for m in pnode.body if isinstance(m, ast.FunctionDef) and m.name == "_process_single_item_with_context"]
    if len(meth) != 1:
        raise TranslationError("_ProbeContextInjectorNode._process_single_item_with_context not found")
    src = ast.unparse(meth[0])
    publishes = ("setattr(self.processor, 'observer_context', context)" in src
                 or "self.processor.observer_context = context" in src)
    if "probe_result = self.processor.process(data, **parameters)" not in src or \
            "_ContextObserver.update_context(context, self.context_key, probe_result)" not in src:
        raise TranslationError("_ProbeContextInjectorNode: unexpected processing shape")
    dnode = find_def(ntree, "_DataNode", ast.ClassDef)
    proc = [m for m in dnode.body if isinstance(m, ast.FunctionDef) and m.name == "_process"][0]
    psrc = ast.unparse(proc)
    gate_first = "if issubclass(type(result_data), input_type):" in psrc and "raise TypeError(" in psrc
    single = [m for m in dnode.body if isinstance(m, ast.FunctionDef) and m.name == "_process_single_item_with_context"][0]
    ssrc = ast.unparse(single)
    if ssrc.find("self._get_processor_parameters") > ssrc.find("self.processor.process(data, **parameters)"):
        raise TranslationError("_DataNode: parameters are not resolved before the processor runs")
    ptree, p3 = parse("semantiva/pipeline/node_preprocess.py")
    conv = find_def(ptree, "_convert_var_specs", ast.FunctionDef)
    csrc = ast.unparse(conv)
    if "SequenceSpec(spec)" not in csrc or "FromContext(key)" not in csrc or "SequenceSpec(spec['values'])" not in csrc:
        raise TranslationError("_convert_var_specs: unexpected shape")
    two_is_range = "len(spec) == 2 and all((isinstance(x, (int, float)) for x in spec))" in csrc and "steps=10" in csrc
    stree, p4 = parse("semantiva/data_processors/parametric_sweep_factory.py")
    it = ast.unparse(find_def(stree, "_iterate_sweep", ast.FunctionDef))
    comb_sorted = "var_names = sorted(sequences.keys())" in it and "itertools.product(*var_seqs)" in it
    if "if mode == 'by_position':" not in it:
        raise TranslationError("_iterate_sweep: mode test not found")
    ftree, p5 = parse("semantiva/context_processors/factory.py")
    rn = ast.unparse(find_def(find_def(ftree, "_context_renamer_factory", ast.FunctionDef), "_process_logic", ast.FunctionDef))
    dl = ast.unparse(find_def(find_def(ftree, "_context_deleter_factory", ast.FunctionDef), "_process_logic", ast.FunctionDef))
    if "if value is not None:" in rn and "if value is not None:" in dl:
        none_noop = True
    elif "if original_key in kwargs:" in rn and "if key in kwargs:" in dl:
        none_noop = False
    else:
        raise TranslationError("rename/delete factories: unknown presence test")
    for frag in ("self._notify_context_update(destination_key, value)", "self._notify_context_deletion(original_key)"):
        if frag not in rn:
            raise TranslationError("rename factory: missing " + frag)
    if "self._notify_context_deletion(key)" not in dl:
        raise TranslationError("delete factory: missing deletion")
    text = """(* GENERATED from semantiva/pipeline/_param_resolution.py and pipeline/nodes/nodes.py — do not edit *)
From Coq Require Import List String Bool. Import ListNotations.
Open Scope string_scope.
Inductive rsrc := RCfg | RCtx | RDflt.
Definition resolution_order : list rsrc := %s.
Definition inspect_order : list rsrc := %s.
Definition reserved_names : list string := %s.
Definition probe_sweep_publishes : bool := %s.
Definition gate_before_resolve : bool := %s.
Definition two_element_list_is_range : bool := %s.
Definition combinatorial_sorts_names : bool := %s.
Definition none_value_is_noop : bool := %s.
Definition translation_failed := false.
""" % (cq_list(order), cq_list(iorder), cq_list(reserved, cq_str), cq_bool(publishes), cq_bool(gate_first),
       cq_bool(two_is_range), cq_bool(comb_sorted), cq_bool(none_noop))
    return text, [p1, p2, p3, p4, p5]
