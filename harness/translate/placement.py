"""semantiva/configurations/load_pipeline_from_yaml.py (parse_pipeline_config) and semantiva/cli/__init__.py (_run) -> Gen/PlacementGen.v

Facts read from the source (fail closed on any unknown shape):
  loader_prio          which `run_space` block parse_pipeline_config hands to _parse_run_space_block when the document holds one
                       at the top level and one under `pipeline:`  (TopFirst / NestedFirst)
  cli_patch            into which block _run writes --run-space-max-runs / --run-space-dry-run before the loader reads the
                       document (PatchLoaderBlock / PatchTopAlways / PatchNestedIfPresent); the statements choosing the block are
                       compared, after ast.unparse, with the three known spellings; the statements that follow must check the
                       block is a mapping and store max_runs / dry_run in it
  file_stored_at_top   --run-space-file ends in  config["run_space"] = <its block>
"""
import ast

from harness.translate import TranslationError, find_def, parse

OUT = "PlacementGen.v"
LOADER = "semantiva/configurations/load_pipeline_from_yaml.py"
CLI = "semantiva/cli/__init__.py"

HEAD = "From SV Require Import Model.Placement.\n"
FALLBACK = HEAD + """Definition loader_prio : prio := NestedFirst.
Definition cli_patch : patch_rule := PatchTopAlways.
Definition file_stored_at_top : bool := false.
Definition translation_failed := true.
"""

PATCH_SPELLINGS = {
    "PatchTopAlways": ["run_space_section = config.setdefault('run_space', {})"],
    "PatchLoaderBlock": [
        "run_space_section = config.get('run_space')",
        "if run_space_section is None:\n"
        "    pipeline_section = config.get('pipeline')\n"
        "    if isinstance(pipeline_section, dict) and pipeline_section.get('run_space') is not None:\n"
        "        run_space_section = pipeline_section['run_space']\n"
        "    else:\n"
        "        run_space_section = config['run_space'] = {}"],
    "PatchNestedIfPresent": [
        "pipeline_section = config.get('pipeline')",
        "if isinstance(pipeline_section, dict) and 'run_space' in pipeline_section:\n"
        "    run_space_section = pipeline_section['run_space']\n"
        "else:\n"
        "    run_space_section = config.setdefault('run_space', {})"],
}
TAIL = [
    "if args.run_space_max_runs is not None:\n    run_space_section['max_runs'] = args.run_space_max_runs",
    "if args.run_space_dry_run:\n    run_space_section['dry_run'] = True",
]


def _norm(src):
    return ast.unparse(ast.parse(src))


def _loader_prio(tree):
    fn = None
    for n in ast.walk(tree):
        if isinstance(n, ast.FunctionDef) and any(isinstance(c, ast.Call) and ast.unparse(c.func) == "_parse_run_space_block"
                                                   and [ast.unparse(a) for a in c.args] == ["run_space_block"] for c in ast.walk(n)) \
                and n.name != "_parse_run_space_block":
            if fn is not None:
                raise TranslationError("two functions call _parse_run_space_block(run_space_block)")
            fn = n
    if fn is None:
        raise TranslationError("no function calls _parse_run_space_block(run_space_block)")
    stmts = [s for s in fn.body if "run_space_block" in {x.id for x in ast.walk(s) if isinstance(x, ast.Name)}]
    texts = [ast.unparse(s) for s in stmts]
    top, nested = "config.get('run_space')", "config['pipeline'].get('run_space')"
    guard = "isinstance(config.get('pipeline'), Mapping)"
    want_top = [_norm("run_space_block = %s" % top),
                _norm("if run_space_block is None and %s:\n    run_space_block = %s" % (guard, nested))]
    want_nested = [_norm("run_space_block = %s if %s else None" % (nested, guard)),
                   _norm("if run_space_block is None:\n    run_space_block = %s" % top)]
    if texts[:2] == want_top and len(texts) == 3:
        return "TopFirst"
    if texts[:2] == want_nested and len(texts) == 3:
        return "NestedFirst"
    raise TranslationError("parse_pipeline_config: the statements choosing the run_space block have an unknown shape: %r" % texts[:3])


def _cli_patch(tree):
    run = find_def(tree, "_run", ast.FunctionDef)
    test = _norm("args.run_space_max_runs is not None or args.run_space_dry_run")
    blocks = [n for n in ast.walk(run) if isinstance(n, ast.If) and ast.unparse(n.test) == test]
    if len(blocks) != 1:
        raise TranslationError("_run: expected one `if args.run_space_max_runs is not None or args.run_space_dry_run:`, found %d" % len(blocks))
    body = [ast.unparse(s) for s in blocks[0].body]
    for rule, spelling in PATCH_SPELLINGS.items():
        k = len(spelling)
        if body[:k] == [_norm(s) for s in spelling]:
            rest = blocks[0].body[k:]
            if len(rest) != 4:
                raise TranslationError("_run: unexpected statements after the block was chosen: %r" % [ast.unparse(s)[:60] for s in rest])
            chk = rest[0]
            if not (isinstance(chk, ast.If) and ast.unparse(chk.test) == "not isinstance(run_space_section, dict)"
                    and any(isinstance(x, ast.Return) for x in ast.walk(chk))):
                raise TranslationError("_run: the chosen block is not checked to be a mapping")
            if [ast.unparse(s) for s in rest[1:3]] != [_norm(s) for s in TAIL]:
                raise TranslationError("_run: max_runs / dry_run are not stored in the chosen block: %r" % [ast.unparse(s) for s in rest[1:3]])
            if ast.unparse(rest[3]) != "run_space_override = True":
                raise TranslationError("_run: unexpected last statement of the flag block")
            return rule
    raise TranslationError("_run: the statements choosing the block for the run-space flags have an unknown shape: %r" % body[:2])


def _file_at_top(tree):
    run = find_def(tree, "_run", ast.FunctionDef)
    blocks = [n for n in ast.walk(run) if isinstance(n, ast.If) and ast.unparse(n.test) == "args.run_space_file"]
    if len(blocks) != 1:
        raise TranslationError("_run: expected one `if args.run_space_file:` block")
    stores = [s for s in blocks[0].body if isinstance(s, ast.Assign) and ast.unparse(s.targets[0]).startswith("config[")]
    if [ast.unparse(s) for s in stores] != ["config['run_space'] = run_space_block"]:
        raise TranslationError("_run: --run-space-file is not stored as config['run_space']")
    # ... and the flag block comes after it
    order = [n.lineno for n in run.body if isinstance(n, ast.If) and ast.unparse(n.test) in
             ("args.run_space_file", _norm("args.run_space_max_runs is not None or args.run_space_dry_run"))]
    if len(order) != 2 or order != sorted(order):
        raise TranslationError("_run: the flag block does not follow the --run-space-file block")
    return True


def translate():
    ltree, lpath = parse(LOADER)
    ctree, cpath = parse(CLI)
    prio = _loader_prio(ltree)
    rule = _cli_patch(ctree)
    at_top = _file_at_top(ctree)
    text = ("(* GENERATED from %s and %s by harness/translate/placement.py -- do not edit *)\n" % (LOADER, CLI) + HEAD +
            "Definition loader_prio : prio := %s.\n" % prio +
            "Definition cli_patch : patch_rule := %s.\n" % rule +
            "Definition file_stored_at_top : bool := %s.\n" % ("true" if at_top else "false") +
            "Definition translation_failed := false.\n")
    return text, [lpath, cpath]
