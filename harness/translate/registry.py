"""class factories, component registry, orchestrator publish path -> Gen/RegistryGen.v   (C18)

Structural facts, each an AST pattern (any other shape raises TranslationError, fail closed):

  metaclass_registers_every_class  `_SemantivaComponentMeta.__init__` ends in
        `_COMPONENT_REGISTRY.setdefault(cat, []).append(cls)` guarded only by "is not a direct child of
        _SemantivaComponent", `hasattr(cls, "get_metadata")` and `if cat:`; nothing in the module removes entries.
  node_instantiation_in_execute    `SemantivaOrchestrator.execute` calls `self._instantiate_nodes(...)`, whose loop calls
        `_pipeline_node_factory(...)` once per node; `Pipeline.__init__` builds no nodes.
  memo_<factory>                   the class factory (or the only resolver that calls it) is decorated with
        functools.lru_cache / functools.cache.  A factory body that mentions a name containing "cache" or "memo"
        without such a decorator is an unknown shape.  Each factory must still contain its class creation
        (3-argument `type(...)`, `new_class(...)` or a `class` statement inside the function).
  node_classes_created_per_execute = node_instantiation_in_execute and not memo_node_class
        Memoising the adapter / node-class factory while a shorthand / sweep factory still makes a new class per call is
        outside the modelled class (cache keyed by per-run classes) and is refused.
  adapter_classes / node_classes   per framework role, the number of `_IOOperationFactory.create_data_operation` /
        `_PipelineNodeFactory._create_class` calls in the `create_*` function that `_pipeline_node_factory` (and
        `create_io_node`) dispatch that role to (`if issubclass(processor, <Base>): return _PipelineNodeFactory.<fn>(...)`).
  trace_resolves_symbols           the `if trace is not None:` part of execute calls `self._resolve_processor_classes`, which
        calls `resolve_symbol` on string processors (so a shorthand factory runs once more per traced run).
  published_outputs_consumed       False when the node loop of execute calls `self._publish(node, data, context, transport)`,
        `LocalSemantivaOrchestrator._publish` calls `transport.publish(...)`, and neither orchestrator.py nor pipeline.py
        ever subscribes to / drains / clears the transport.  True when nothing is published.
  job_channels_removed             in_memory.py deletes / pops entries of `self._queues` somewhere.
"""
import ast
import os

from harness import core
from harness.core import cq_bool
from harness.translate import TranslationError, find_def

OUT = "RegistryGen.v"
SRC = {
    "component": "semantiva/core/semantiva_component.py",
    "nodefac": "semantiva/pipeline/nodes/_pipeline_node_factory.py",
    "iofac": "semantiva/data_processors/io_operation_factory.py",
    "ctxfac": "semantiva/context_processors/factory.py",
    "slicefac": "semantiva/data_processors/data_slicer_factory.py",
    "sweepfac": "semantiva/data_processors/parametric_sweep_factory.py",
    "orch": "semantiva/execution/orchestrator/orchestrator.py",
    "pipeline": "semantiva/pipeline/pipeline.py",
    "resolvers": "semantiva/registry/builtin_resolvers.py",
    "resolve": "semantiva/registry/resolve.py",
    "nameres": "semantiva/registry/name_resolver_registry.py",
    "preprocess": "semantiva/pipeline/node_preprocess.py",
    "graph": "semantiva/pipeline/graph_builder.py",
    "inmem": "semantiva/execution/transport/in_memory.py",
}
ROLES = ["RDataSource", "RPayloadSource", "RDataSink", "RPayloadSink", "ROperation", "RProbe", "RContext"]
ROLE_OF_BASE = {"DataSource": "RDataSource", "PayloadSource": "RPayloadSource", "DataSink": "RDataSink",
                "PayloadSink": "RPayloadSink", "DataOperation": "ROperation", "DataProbe": "RProbe",
                "ContextProcessor": "RContext"}
FACTORIES = ["FNode", "FAdapter", "FRename", "FDelete", "FTemplate", "FSlice", "FSweep"]

FALLBACK = """From Coq Require Import List String Bool. Import ListNotations.
From SV Require Import Model.Registry.
Definition metaclass_registers_every_class : bool := true.
Definition node_instantiation_in_execute : bool := true.
Definition memo_of (f : factory) : bool := false.
Definition node_classes_created_per_execute : bool := true.
Definition trace_resolves_symbols : bool := true.
Definition published_outputs_consumed : bool := false.
Definition job_channels_removed : bool := false.
Definition adapter_classes_of (r : role) : nat := 0.
Definition node_classes_of (r : role) : nat := 1.
Definition facts : Registry.facts := mkFacts metaclass_registers_every_class node_instantiation_in_execute memo_of
  trace_resolves_symbols published_outputs_consumed job_channels_removed adapter_classes_of node_classes_of.
Definition translation_failed := true.
"""


def _u(n):
    return ast.unparse(n)


def _load(key, repo):
    path = os.path.join(repo, SRC[key])
    return ast.parse(open(path).read()), path


def _method(cls, name):
    for n in cls.body:
        if isinstance(n, (ast.FunctionDef, ast.AsyncFunctionDef)) and n.name == name:
            return n
    raise TranslationError("%s.%s not found" % (cls.name, name))


def _calls(scope):
    return [n for n in ast.walk(scope) if isinstance(n, ast.Call)]


def _is_memo_decorated(fn):
    for d in fn.decorator_list:
        t = _u(d.func) if isinstance(d, ast.Call) else _u(d)
        if t in ("lru_cache", "functools.lru_cache", "cache", "functools.cache"):
            return True
    return False


def _mentions_cache(fn):
    for n in ast.walk(fn):
        name = n.id if isinstance(n, ast.Name) else (n.attr if isinstance(n, ast.Attribute) else None)
        if name and ("cache" in name.lower() or "memo" in name.lower()):
            return name
    return None


def _creates_class(fn):
    for n in ast.walk(fn):
        if isinstance(n, ast.ClassDef):
            return True
        if isinstance(n, ast.Call) and _u(n.func) in ("type", "new_class", "types.new_class") and len(n.args) >= 3:
            return True
    return False


def _memo_fact(fn, what, extra=()):
    """True / False for one factory function (+ functions that are its only entry points)."""
    if not _creates_class(fn):
        raise TranslationError("%s: no class creation (type(...)/new_class/class statement) found any more" % what)
    if _is_memo_decorated(fn) or (extra and all(_is_memo_decorated(e) for e in extra)):
        return True
    for f in (fn,) + tuple(extra):
        m = _mentions_cache(f)
        if m:
            raise TranslationError("%s: mentions %r but is not an lru_cache/cache-decorated function (unknown memoisation shape)" % (what, m))
    return False


def analyse(repo=None):
    repo = repo or core.REPO
    paths = []
    facts = {}

    # ---- the metaclass ------------------------------------------------------------------------------
    tree, p = _load("component", repo)
    paths.append(p)
    meta = find_def(tree, "_SemantivaComponentMeta", ast.ClassDef)
    init = _method(meta, "__init__")
    appends = [c for c in _calls(init) if _u(c.func).endswith(".append") and "_COMPONENT_REGISTRY" in _u(c.func)]
    if not appends:
        if "_COMPONENT_REGISTRY" in _u(init):
            raise TranslationError("metaclass __init__ touches _COMPONENT_REGISTRY in an unrecognised way")
        facts["registers"] = False
    else:
        if len(appends) != 1 or _u(appends[0]) != "_COMPONENT_REGISTRY.setdefault(cat, []).append(cls)":
            raise TranslationError("metaclass registration is not `_COMPONENT_REGISTRY.setdefault(cat, []).append(cls)`: " + _u(appends[0]))
        guards = [n for n in ast.walk(init) if isinstance(n, ast.If)]
        tests = sorted(_u(g.test) for g in guards)
        expect = sorted(["not any((b is _SemantivaComponent for b in bases)) and hasattr(cls, 'get_metadata')", "cat"])
        if tests != expect:
            raise TranslationError("metaclass registration is guarded by unrecognised conditions: %s" % tests)
        if "cat = meta.get('component_type')" not in [_u(s) for s in ast.walk(init) if isinstance(s, ast.Assign)]:
            raise TranslationError("registry category is not meta.get('component_type')")
        facts["registers"] = True
    for n in ast.walk(tree):
        if isinstance(n, ast.Delete) and "_COMPONENT_REGISTRY" in _u(n):
            raise TranslationError("semantiva_component.py deletes registry entries (unmodelled)")
        if isinstance(n, ast.Call) and "_COMPONENT_REGISTRY" in _u(n.func) and _u(n.func).split(".")[-1] in ("pop", "clear", "remove", "popitem"):
            raise TranslationError("semantiva_component.py removes registry entries (unmodelled): " + _u(n))
    getter = find_def(tree, "get_component_registry", ast.FunctionDef)
    if [_u(s) for s in getter.body if isinstance(s, ast.Return)] != ["return _COMPONENT_REGISTRY"]:
        raise TranslationError("get_component_registry does not return _COMPONENT_REGISTRY itself")

    # ---- orchestrator: instantiation per execute, traced resolution, publish path ------------------------
    tree, p = _load("orch", repo)
    paths.append(p)
    orch = find_def(tree, "SemantivaOrchestrator", ast.ClassDef)
    execute = _method(orch, "execute")
    inst_calls = [c for c in _calls(execute) if _u(c.func) == "self._instantiate_nodes"]
    inst = _method(orch, "_instantiate_nodes")
    loops = [n for n in inst.body if isinstance(n, ast.For)]
    per_node = [c for l in loops for c in _calls(l) if _u(c.func) == "_pipeline_node_factory"]
    if len(loops) != 1 or len(per_node) != 1 or _u(loops[0].iter) != "pipeline_spec":
        raise TranslationError("_instantiate_nodes is not one loop over pipeline_spec calling _pipeline_node_factory once")
    if _is_memo_decorated(inst) or _mentions_cache(inst):
        raise TranslationError("_instantiate_nodes caches (unknown shape)")
    ptree, pp = _load("pipeline", repo)
    paths.append(pp)
    pinit = _method(find_def(ptree, "Pipeline", ast.ClassDef), "__init__")
    builds_nodes_at_init = any(_u(c.func) in ("_pipeline_node_factory", "self.orchestrator._instantiate_nodes") for c in _calls(pinit))
    if len(inst_calls) == 1 and not builds_nodes_at_init:
        facts["inst_in_execute"] = True
    elif not inst_calls and builds_nodes_at_init:
        facts["inst_in_execute"] = False
    else:
        raise TranslationError("node instantiation site unrecognised (execute calls: %d, Pipeline.__init__ builds nodes: %s)"
                               % (len(inst_calls), builds_nodes_at_init))
    if not any(_u(c.func) == "build_canonical_spec" for c in _calls(pinit)):
        raise TranslationError("Pipeline.__init__ does not call build_canonical_spec")

    traced_ifs = [n for n in execute.body if isinstance(n, ast.If) and _u(n.test) == "trace is not None"]
    rp = _method(orch, "_resolve_processor_classes")
    rp_resolves = any(_u(c.func) == "resolve_symbol" for c in _calls(rp))
    tr_calls = [c for i in traced_ifs for c in _calls(i) if _u(c.func) == "self._resolve_processor_classes"]
    other = [c for c in _calls(execute) if _u(c.func) == "self._resolve_processor_classes" and c not in tr_calls]
    if other:
        raise TranslationError("_resolve_processor_classes is called outside `if trace is not None:`")
    facts["trace_resolves"] = bool(tr_calls) and rp_resolves
    if len(tr_calls) > 1:
        raise TranslationError("_resolve_processor_classes called more than once per traced run")

    pubs = [c for c in _calls(execute) if _u(c.func) == "self._publish"]
    local = find_def(tree, "LocalSemantivaOrchestrator", ast.ClassDef)
    lpub = _method(local, "_publish")
    tpub = [c for c in _calls(lpub) if _u(c.func) == "transport.publish"]
    drains = []
    for t in (tree, ptree):
        for c in _calls(t):
            f = _u(c.func)
            if f.split(".")[-1] in ("subscribe", "drain", "clear", "popleft", "pop") and "transport" in f:
                drains.append(f)
    if drains:
        raise TranslationError("orchestrator / pipeline consume from the transport in an unmodelled way: %s" % drains)
    if not pubs or not tpub:
        facts["consumed"] = True       # nothing is published
    else:
        if len(pubs) != 1 or _u(pubs[0]) != "self._publish(node, data, context, transport)" or len(tpub) != 1:
            raise TranslationError("publish path unrecognised: " + ", ".join(_u(x) for x in pubs + tpub))
        in_loop = any(pubs[0] in _calls(l) for l in ast.walk(execute) if isinstance(l, ast.For) and _u(l.iter) == "enumerate(nodes)")
        if not in_loop:
            raise TranslationError("self._publish is not called in the node loop of execute")
        facts["consumed"] = False

    # ---- class factories -------------------------------------------------------------------------------
    memo = {}
    tree, p = _load("nodefac", repo)
    paths.append(p)
    nf = find_def(tree, "_PipelineNodeFactory", ast.ClassDef)
    create_cls = _method(nf, "_create_class")
    creators = {m.name: m for m in nf.body if isinstance(m, ast.FunctionDef) and m.name.startswith("create_")}
    users = tuple(m for m in creators.values() if any(_u(c.func) == "_PipelineNodeFactory._create_class" for c in _calls(m)))
    memo["FNode"] = _memo_fact(create_cls, "_PipelineNodeFactory._create_class", users)
    top = find_def(tree, "_pipeline_node_factory", ast.FunctionDef)
    if _is_memo_decorated(top) or _mentions_cache(top):
        raise TranslationError("_pipeline_node_factory caches (unknown shape)")

    def dispatch(fn, depth=0):
        out = {}
        for n in ast.walk(fn):
            if not (isinstance(n, ast.If) and isinstance(n.test, ast.Call) and _u(n.test.func) == "issubclass"
                    and len(n.test.args) == 2 and _u(n.test.args[0]) == "processor"):
                continue
            bases = n.test.args[1]
            names = [_u(e) for e in bases.elts] if isinstance(bases, ast.Tuple) else [_u(bases)]
            rets = [r for s in n.body for r in ast.walk(s) if isinstance(r, ast.Return) and isinstance(r.value, ast.Call)
                    and _u(r.value.func).startswith("_PipelineNodeFactory.")]
            if len(rets) != 1:
                raise TranslationError("%s: branch for %s does not return exactly one _PipelineNodeFactory.<fn>(...)" % (fn.name, names))
            target = _u(rets[0].value.func).split(".", 1)[1]
            if target == "create_io_node":
                if depth:
                    raise TranslationError("create_io_node dispatches to itself")
                sub = dispatch(creators["create_io_node"], 1)
                for b in names:
                    if b not in sub:
                        raise TranslationError("create_io_node has no branch for " + b)
                    out.setdefault(b, sub[b])
            else:
                for b in names:
                    out.setdefault(b, target)      # first matching branch wins, as in the if-chain
        return out
    table = dispatch(top)
    if set(table) != set(ROLE_OF_BASE):
        raise TranslationError("_pipeline_node_factory dispatches on %s, expected %s" % (sorted(table), sorted(ROLE_OF_BASE)))
    adapters, nodecls, targets = {}, {}, {}
    for base, target in table.items():
        fn = creators.get(target)
        if fn is None:
            raise TranslationError("dispatch target %s not found" % target)
        cs = _calls(fn)
        adapters[ROLE_OF_BASE[base]] = sum(1 for c in cs if _u(c.func) == "_IOOperationFactory.create_data_operation")
        nodecls[ROLE_OF_BASE[base]] = sum(1 for c in cs if _u(c.func) == "_PipelineNodeFactory._create_class")
        targets[ROLE_OF_BASE[base]] = target
        if any(isinstance(x, (ast.For, ast.While)) for x in ast.walk(fn)):
            raise TranslationError("%s contains a loop (class count not derivable)" % target)

    tree, p = _load("iofac", repo)
    paths.append(p)
    io = _method(find_def(tree, "_IOOperationFactory", ast.ClassDef), "create_data_operation")
    memo["FAdapter"] = _memo_fact(io, "_IOOperationFactory.create_data_operation")

    rtree, rpth = _load("resolvers", repo)
    paths.append(rpth)
    tree, p = _load("ctxfac", repo)
    paths.append(p)
    for tag, fname, res, prefix in (("FRename", "_context_renamer_factory", "_resolve_rename", "rename:"),
                                    ("FDelete", "_context_deleter_factory", "_resolve_delete", "delete:"),
                                    ("FTemplate", "_context_template_factory", "_resolve_template", "template:")):
        r = find_def(rtree, res, ast.FunctionDef)
        if not any(_u(c.func) == fname for c in _calls(r)):
            raise TranslationError("%s does not call %s" % (res, fname))
        memo[tag] = _memo_fact(find_def(tree, fname, ast.FunctionDef), fname, (r,))
    tree, p = _load("slicefac", repo)
    paths.append(p)
    r = find_def(rtree, "_resolve_slice", ast.FunctionDef)
    if not any(_u(c.func) == "slice" for c in _calls(r)):
        raise TranslationError("_resolve_slice does not call slice(...)")
    sl = find_def(tree, "slice", ast.FunctionDef)
    if not any(_u(c.func) == "_SlicingDataProcessorFactory.create" for c in _calls(sl)):
        raise TranslationError("slice() does not call _SlicingDataProcessorFactory.create")
    memo["FSlice"] = _memo_fact(_method(find_def(tree, "_SlicingDataProcessorFactory", ast.ClassDef), "create"),
                                "_SlicingDataProcessorFactory.create", (r,)) or _is_memo_decorated(sl)
    reg = find_def(rtree, "register_builtin_resolvers", ast.FunctionDef)
    regs = sorted(_u(c) for c in _calls(reg) if _u(c.func) == "NameResolverRegistry.register_resolver")
    if regs != sorted("NameResolverRegistry.register_resolver('%s', %s)" % x for x in
                      (("rename:", "_resolve_rename"), ("delete:", "_resolve_delete"), ("template:", "_resolve_template"), ("slice:", "_resolve_slice"))):
        raise TranslationError("built-in name resolvers changed: %s" % regs)
    for key, names in (("resolve", ["resolve_symbol"]), ("nameres", ["resolve"])):
        t, pth = _load(key, repo)
        paths.append(pth)
        for nm in names:
            f = find_def(t, nm, ast.FunctionDef)
            if _is_memo_decorated(f) or _mentions_cache(f):
                raise TranslationError("%s caches resolved symbols (unknown shape)" % nm)

    tree, p = _load("sweepfac", repo)
    paths.append(p)
    memo["FSweep"] = _memo_fact(_method(find_def(tree, "ParametricSweepFactory", ast.ClassDef), "create"), "ParametricSweepFactory.create")
    tree, p = _load("preprocess", repo)
    paths.append(p)
    pre = find_def(tree, "preprocess_node_config", ast.FunctionDef)
    if sum(1 for c in _calls(pre) if _u(c.func) == "ParametricSweepFactory.create") != 1:
        raise TranslationError("preprocess_node_config does not call ParametricSweepFactory.create exactly once")
    if "new_config['processor'] = sweep_class" not in [_u(s) for s in ast.walk(pre) if isinstance(s, ast.Assign)]:
        raise TranslationError("preprocess_node_config does not store the sweep class as the node's processor")
    tree, p = _load("graph", repo)
    paths.append(p)
    bcs = find_def(tree, "build_canonical_spec", ast.FunctionDef)
    if sum(1 for c in _calls(bcs) if _u(c.func) == "preprocess_node_config") != 1 or _mentions_cache(bcs):
        raise TranslationError("build_canonical_spec does not preprocess each node exactly once")
    if sum(1 for c in _calls(top) if _u(c.func) == "preprocess_node_config") != 1:
        raise TranslationError("_pipeline_node_factory does not preprocess the node configuration exactly once")

    # the model keys memo tables by the *text* of the factory arguments; that is exact only when the class handed to a
    # downstream factory (adapter, node class) is itself stable, i.e. every upstream class factory is memoised too
    upstream = ["FRename", "FDelete", "FTemplate", "FSlice", "FSweep"]
    if (memo["FAdapter"] or memo["FNode"]) and not all(memo[u] for u in upstream):
        raise TranslationError("partial memoisation outside the modelled class: adapter/node-class factory memoised while %s create a new "
                               "class per call (the cache would be keyed by per-run classes)" % [u for u in upstream if not memo[u]])

    # ---- transport channel table ---------------------------------------------------------------------------
    tree, p = _load("inmem", repo)
    paths.append(p)
    removed = False
    for n in ast.walk(tree):
        if isinstance(n, ast.Delete) and "_queues" in _u(n):
            removed = True
        if isinstance(n, ast.Call) and "_queues" in _u(n.func) and _u(n.func).split(".")[-1] in ("pop", "popitem", "clear"):
            removed = True
    facts["chan_removed"] = removed
    return {"facts": facts, "memo": memo, "adapters": adapters, "nodecls": nodecls, "targets": targets, "paths": paths}


def translate():
    a = analyse()
    f, memo = a["facts"], a["memo"]

    def match(table, default):
        return " ".join("| %s => %s" % (r, table.get(r, default)) for r in ROLES)
    text = """(* GENERATED by harness/translate/registry.py from
   %s
   -- do not edit *)
From Coq Require Import List String Bool. Import ListNotations.
From SV Require Import Model.Registry.
(* _SemantivaComponentMeta.__init__ appends every new class that has a component_type *)
Definition metaclass_registers_every_class : bool := %s.
(* SemantivaOrchestrator.execute calls _instantiate_nodes (one _pipeline_node_factory call per node and run) *)
Definition node_instantiation_in_execute : bool := %s.
(* the class factory is lru_cache/cache-decorated *)
Definition memo_of (f : factory) : bool :=
  match f with %s end.
Definition node_classes_created_per_execute : bool := node_instantiation_in_execute && negb (memo_of FNode).
(* a traced execute() resolves string processors once more (_resolve_processor_classes -> resolve_symbol) *)
Definition trace_resolves_symbols : bool := %s.
(* node outputs published to the transport are consumed / never published *)
Definition published_outputs_consumed : bool := %s.
(* in_memory.py removes channel entries from its table *)
Definition job_channels_removed : bool := %s.
(* calls of _IOOperationFactory.create_data_operation / _PipelineNodeFactory._create_class in the create_* function
   each role is dispatched to: %s *)
Definition adapter_classes_of (r : role) : nat :=
  match r with %s end.
Definition node_classes_of (r : role) : nat :=
  match r with %s end.
Definition facts : Registry.facts := mkFacts metaclass_registers_every_class node_instantiation_in_execute memo_of
  trace_resolves_symbols published_outputs_consumed job_channels_removed adapter_classes_of node_classes_of.
Definition translation_failed := false.
""" % ("\n   ".join(SRC[k] for k in SRC), cq_bool(f["registers"]), cq_bool(f["inst_in_execute"]),
       " ".join("| %s => %s" % (k, cq_bool(memo[k])) for k in FACTORIES), cq_bool(f["trace_resolves"]),
       cq_bool(f["consumed"]), cq_bool(f["chan_removed"]),
       ", ".join("%s -> %s" % (r, a["targets"].get(r)) for r in ROLES),
       match(a["adapters"], 0), match(a["nodecls"], 0))
    return text, a["paths"]
