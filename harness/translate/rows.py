"""semantiva/execution/run_space.py (_append_row, the rows-as-runs branches of _load_source_file) -> Gen/RowsGen.v

Fact read from the source (fail closed on any unknown shape):
  rows_checked   true:  every value of a row is appended through _append_row, which raises the configuration error unless the
                        key's column holds exactly one value per earlier row (Model/Rows.v: append_row);
                 false: the rows branches append with `columns.setdefault(str(key), []).append(value)` (append_row_unchecked)
"""
import ast

from harness.translate import TranslationError, parse

OUT = "RowsGen.v"
SRC = "semantiva/execution/run_space.py"
FALLBACK = "Definition rows_checked : bool := false.\nDefinition translation_failed := true.\n"

UNCHECKED = "columns.setdefault(str(key), []).append(value)"


def _body(fn):
    b = list(fn.body)
    if b and isinstance(b[0], ast.Expr) and isinstance(getattr(b[0], "value", None), ast.Constant) and isinstance(b[0].value.value, str):
        b = b[1:]
    return b


def translate():
    tree, path = parse(SRC)
    funcs = {n.name: n for n in tree.body if isinstance(n, ast.FunctionDef)}
    if "_load_source_file" not in funcs:
        raise TranslationError("_load_source_file not found")
    lsf = funcs["_load_source_file"]
    text = ast.unparse(lsf)
    n_unchecked = text.count(UNCHECKED)
    calls = [ast.unparse(c) for c in ast.walk(lsf) if isinstance(c, ast.Call) and ast.unparse(c.func) == "_append_row"]
    if "_append_row" not in funcs:
        if n_unchecked == 2 and not calls:
            checked = False
        else:
            raise TranslationError("_load_source_file: the rows branches have an unknown shape (%d unchecked appends, %d _append_row calls)" % (n_unchecked, len(calls)))
    else:
        if n_unchecked or "setdefault" in text:
            raise TranslationError("_load_source_file still appends to columns outside _append_row")
        if calls != ["_append_row(columns, row, index)"] * 2:
            raise TranslationError("_load_source_file: expected two calls _append_row(columns, row, index), found %r" % calls)
        # the row number: enumerate(payload) in the list branch; a counter started at 0 and advanced by one per appended row in the
        # ndjson branch
        fors = [ast.unparse(n.target) + " in " + ast.unparse(n.iter) for n in ast.walk(lsf) if isinstance(n, ast.For)]
        if "(index, row) in enumerate(payload)" not in fors:
            raise TranslationError("_load_source_file: the list branch does not number its rows with enumerate(payload): %r" % fors)
        if text.count("index = 0") != 1 or text.count("index += 1") != 1:
            raise TranslationError("_load_source_file: the ndjson branch does not count its rows from 0 in steps of 1")
        body = _body(funcs["_append_row"])
        if [a.arg for a in funcs["_append_row"].args.args] != ["columns", "row", "index"]:
            raise TranslationError("_append_row: unexpected parameters")
        if len(body) != 1 or not isinstance(body[0], ast.For) or ast.unparse(body[0].iter) != "row.items()" \
                or ast.unparse(body[0].target) != "(key, value)":
            raise TranslationError("_append_row: expected one loop over row.items()")
        st = body[0].body
        if len(st) != 3 or ast.unparse(st[0]) != "column = columns.setdefault(str(key), [])" or ast.unparse(st[2]) != "column.append(value)":
            raise TranslationError("_append_row: unexpected loop body: %r" % [ast.unparse(s)[:50] for s in st])
        chk = st[1]
        if not (isinstance(chk, ast.If) and ast.unparse(chk.test) == "len(column) != index" and not chk.orelse and len(chk.body) == 1
                and isinstance(chk.body[0], ast.Raise) and isinstance(chk.body[0].exc, ast.Call)
                and ast.unparse(chk.body[0].exc.func) == "ConfigurationError"):
            raise TranslationError("_append_row: the length test does not raise ConfigurationError")
        checked = True
    out = ("(* GENERATED from %s by harness/translate/rows.py -- do not edit *)\n" % SRC +
           "Definition rows_checked : bool := %s.\nDefinition translation_failed := false.\n" % ("true" if checked else "false"))
    return out, [path]
