"""semantiva/execution/run_space.py -> Gen/RunSpaceGen.v

Facts read from the source (fail closed on any unknown shape):
  mode_names     the two mode strings compared against in _expand_entries / expand_run_space
  v_sorted       _expand_entries iterates `ordered_keys = sorted(entries)` in both modes
  v_empty_cap    the no-blocks branch (the one that yields `[{}]`) tests max_runs and raises the max-runs error
  v_cap_first    inside expand_run_space every site that builds runs (_expand_entries, itertools.product,
                 or a module function reaching them) comes after the first max-runs raise
"""
import ast

from harness.translate import TranslationError, find_def, parse
from harness.core import cq_bool, cq_list, cq_str

OUT = "RunSpaceGen.v"
SRC = "semantiva/execution/run_space.py"
EXC = "semantiva/exceptions/pipeline_exceptions.py"
CAP_EXC = "RunSpaceMaxRunsExceededError"

FALLBACK = """From Coq Require Import List String. Import ListNotations.
From SV Require Import Model.RunSpace.
Definition mode_names : list string := [].
Definition impl : variant := mkVariant false false false.
Definition translation_failed := true.
"""

BUILDERS = {"_expand_entries", "itertools.product"}


def _calls(node):
    for n in ast.walk(node):
        if isinstance(n, ast.Call):
            yield n, ast.unparse(n.func)


def _mode_compares(fn, subject):
    """String constants s in `subject == s` tests of fn, in source order."""
    out = []
    for n in ast.walk(fn):
        if isinstance(n, ast.Compare) and len(n.ops) == 1 and isinstance(n.ops[0], ast.Eq) \
                and ast.unparse(n.left) == subject and isinstance(n.comparators[0], ast.Constant) \
                and isinstance(n.comparators[0].value, str):
            out.append((n.lineno, n.comparators[0].value))
    return [s for _, s in sorted(out)]


def _is_cap_raise(n):
    return isinstance(n, ast.Raise) and isinstance(n.exc, ast.Call) and ast.unparse(n.exc.func) == CAP_EXC


def _mentions_max_runs(test):
    return any(isinstance(x, ast.Attribute) and x.attr == "max_runs" for x in ast.walk(test))


def translate():
    tree, path = parse(SRC)
    etree, epath = parse(EXC)
    find_def(etree, CAP_EXC, ast.ClassDef)
    funcs = {n.name: n for n in tree.body if isinstance(n, ast.FunctionDef)}
    for need in ("_expand_entries", "_load_and_process_source", "expand_run_space"):
        if need not in funcs:
            raise TranslationError("function %s not found" % need)

    # ---- _expand_entries: sorted keys, two modes
    ee = funcs["_expand_entries"]
    assigns = [n for n in ast.walk(ee) if isinstance(n, ast.Assign) and len(n.targets) == 1
               and isinstance(n.targets[0], ast.Name) and n.targets[0].id == "ordered_keys"]
    if len(assigns) != 1:
        raise TranslationError("_expand_entries: expected exactly one assignment to ordered_keys")
    rhs = ast.unparse(assigns[0].value)
    if rhs == "sorted(entries)":
        v_sorted = True
    elif rhs in ("list(entries)", "list(entries.keys())"):
        v_sorted = False
    else:
        raise TranslationError("_expand_entries: unexpected key order expression: " + rhs)
    # every comprehension / loop over keys in the function must iterate ordered_keys
    iters = [ast.unparse(g.iter) for n in ast.walk(ee) if isinstance(n, (ast.ListComp, ast.DictComp, ast.GeneratorExp))
             for g in n.generators]
    iters += [ast.unparse(n.iter) for n in ast.walk(ee) if isinstance(n, ast.For)]
    allowed_iters = {"ordered_keys", "range(size)", "itertools.product(*value_iters)"}
    if not set(iters) <= allowed_iters or "ordered_keys" not in iters:
        raise TranslationError("_expand_entries: unexpected iteration: %s" % sorted(set(iters) - allowed_iters))
    zips = [ast.unparse(c) for c, f in _calls(ee) if f == "zip"]
    if zips != ["zip(ordered_keys, combo)"]:
        raise TranslationError("_expand_entries: product rows are not zip(ordered_keys, combo): %s" % zips)
    modes_entries = _mode_compares(ee, "mode")
    if len(modes_entries) != 2:
        raise TranslationError("_expand_entries: expected two mode tests, got %s" % modes_entries)
    # which of the two is the aligned one: its branch contains the identical-lengths error
    first_if = next((n for n in ee.body if isinstance(n, ast.If) and ast.unparse(n.test).startswith("mode ==")), None)
    if first_if is None or "itertools.product" in ast.unparse(ast.Module(body=first_if.body, type_ignores=[])):
        raise TranslationError("_expand_entries: first mode branch is not the aligned one")
    if not any(isinstance(n, ast.Raise) for st in first_if.body for n in ast.walk(st)):
        raise TranslationError("_expand_entries: aligned branch has no length rejection")
    second = first_if.orelse[0] if first_if.orelse and isinstance(first_if.orelse[0], ast.If) else None
    if second is None or "itertools.product(*value_iters)" not in ast.unparse(second):
        raise TranslationError("_expand_entries: second mode branch is not itertools.product")
    mode_names = modes_entries

    # ---- expand_run_space
    ex = funcs["expand_run_space"]
    for subject in ("block.mode", "spec.combine"):
        ms = _mode_compares(ex, subject)
        for hf in ("_block_size", "_expand_block"):   # repaired layout keeps the block-mode tests in helpers
            if subject == "block.mode" and not ms and hf in funcs:
                ms = _mode_compares(funcs[hf], "mode") or _mode_compares(funcs[hf], "block.mode")
        if sorted(set(ms)) != sorted(mode_names):
            raise TranslationError("expand_run_space: %s compared with %s, expected %s" % (subject, ms, mode_names))

    # transitive closure of module functions that build runs
    builders = set(BUILDERS)
    changed = True
    while changed:
        changed = False
        for name, fn in funcs.items():
            if name in builders or name == "expand_run_space":
                continue
            if any(f in builders for _, f in _calls(fn)):
                builders.add(name)
                changed = True
    build_sites = [c for c, f in _calls(ex) if f in builders]
    if not build_sites:
        raise TranslationError("expand_run_space: no site that builds runs found")
    raises = [n for n in ast.walk(ex) if _is_cap_raise(n)]
    if not raises:
        raise TranslationError("expand_run_space: no %s raise found" % CAP_EXC)
    # every cap raise must sit under a test that mentions max_runs
    parents = {}
    for n in ast.walk(ex):
        for c in ast.iter_child_nodes(n):
            parents[id(c)] = n

    def ancestors(n):
        while id(n) in parents:
            n = parents[id(n)]
            yield n

    for r in raises:
        guard = next((a for a in ancestors(r) if isinstance(a, ast.If)), None)
        if guard is None or not _mentions_max_runs(guard.test):
            raise TranslationError("expand_run_space: max-runs raise at line %d is not guarded by a max_runs test" % r.lineno)
    first_raise = min(raises, key=lambda r: r.lineno)
    loops_of_raise = {id(a) for a in ancestors(first_raise) if isinstance(a, (ast.For, ast.While))}
    for c in build_sites:
        if any(id(a) in loops_of_raise for a in ancestors(c)):
            raise TranslationError("expand_run_space: a run-building site shares a loop with the max-runs test")
    v_cap_first = all(c.lineno > first_raise.lineno for c in build_sites)

    # the no-blocks branch: the If body that assigns combined_runs = [{}]
    nb = []
    for n in ast.walk(ex):
        if isinstance(n, ast.If):
            for st in n.body:
                val = st.value if isinstance(st, (ast.Assign, ast.AnnAssign)) else None
                if val is not None and ast.unparse(val) == "[{}]":
                    nb.append(n)
    if len(nb) != 1:
        raise TranslationError("expand_run_space: expected exactly one branch yielding [{}], found %d" % len(nb))
    branch = nb[0]
    if not (isinstance(branch.test, ast.UnaryOp) and isinstance(branch.test.op, ast.Not) and isinstance(branch.test.operand, ast.Name)):
        raise TranslationError("expand_run_space: no-blocks test has unexpected shape: " + ast.unparse(branch.test))
    inner = [n for st in branch.body for n in ast.walk(st) if _is_cap_raise(n)]
    v_empty_cap = bool(inner)
    if not inner and v_cap_first:
        # plan-first layout: the no-blocks case plans `total = 1` and falls into the one general cap test,
        # which precedes the branch that yields [{}]
        general = [n for n in ex.body if isinstance(n, ast.If) and any(_is_cap_raise(x) for st in n.body for x in ast.walk(st))]
        plan0 = [n for n in ex.body if isinstance(n, ast.If) and ast.unparse(n.test) == ast.unparse(branch.test)
                 and [ast.unparse(st) for st in n.body] == ["total = 1"]]
        if len(general) == 1 and len(plan0) == 1 and plan0[0].lineno < general[0].lineno < branch.lineno:
            t = ast.unparse(general[0].test)
            if t not in ("total > spec.max_runs",
                         "total > spec.max_runs and (not (spec.combine == 'combinatorial' and total == 0))"):
                raise TranslationError("expand_run_space: unexpected general cap test: " + t)
            between = [n for n in ex.body if plan0[0].lineno < n.lineno < general[0].lineno]
            if any("total" in ast.unparse(n) and not isinstance(n, ast.If) for n in between):
                raise TranslationError("expand_run_space: planned total modified between the plan and the cap test")
            v_empty_cap = True
    if inner:
        g = next((a for a in ancestors(inner[0]) if isinstance(a, ast.If)), None)
        t = ast.unparse(g.test)
        if t not in ("1 > spec.max_runs", "spec.max_runs < 1"):
            raise TranslationError("expand_run_space: unexpected no-blocks cap test: " + t)

    text = """(* GENERATED from %s by harness/translate/run_space.py -- do not edit *)
From Coq Require Import List String Bool. Import ListNotations.
From SV Require Import Model.RunSpace.
Open Scope string_scope.
Definition mode_names : list string := %s.
Definition impl : variant := mkVariant %s %s %s.
Definition translation_failed := false.
""" % (SRC, cq_list(mode_names, cq_str), cq_bool(v_sorted), cq_bool(v_empty_cap), cq_bool(v_cap_first))
    return text, [path, epath]
