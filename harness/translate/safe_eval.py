"""semantiva/utils/safe_eval.py -> Gen/SafeEvalGen.v (fully generated tables + handler shapes)."""
import ast

from harness.translate import TranslationError, find_assign, find_def, parse
from harness.core import cq_bool, cq_list, cq_str

OUT = "SafeEvalGen.v"
SRC = "semantiva/utils/safe_eval.py"

FALLBACK = """From Coq Require Import List String. Import ListNotations.
From SV Require Import Model.SafeEval.
Definition tables : Tables := mkTables [] [] [] [] KwIgnored false false false.
Definition visit_before_compile := false.
Definition builtins_blocked := false.
Definition translation_failed := true.
"""


def _names(setnode, prefix_ast):
    if not isinstance(setnode, ast.Set):
        raise TranslationError("expected a set literal")
    out = []
    for e in setnode.elts:
        if prefix_ast:
            if isinstance(e, ast.Attribute) and isinstance(e.value, ast.Name) and e.value.id == "ast":
                out.append(e.attr)
            else:
                raise TranslationError("unexpected element " + ast.unparse(e))
        else:
            if isinstance(e, ast.Constant) and isinstance(e.value, str):
                out.append(e.value)
            else:
                raise TranslationError("unexpected element " + ast.unparse(e))
    return out


def _body_wo_doc(fn):
    b = fn.body
    if b and isinstance(b[0], ast.Expr) and isinstance(b[0].value, ast.Constant) and isinstance(b[0].value.value, str):
        b = b[1:]
    return b


def _is_raise_expr_error(stmt):
    return isinstance(stmt, ast.Raise) and isinstance(stmt.exc, ast.Call) and ast.unparse(stmt.exc.func) == "ExpressionError"


def translate():
    tree, path = parse(SRC)
    vis = find_def(tree, "_SafeVisitor", ast.ClassDef)
    if [ast.unparse(b) for b in vis.bases] != ["ast.NodeVisitor"]:
        raise TranslationError("_SafeVisitor is not a plain ast.NodeVisitor")
    allowed_nodes = _names(find_assign(vis, "_ALLOWED_NODES"), True)
    allowed_funcs = _names(find_assign(vis, "_ALLOWED_FUNCS"), False)
    methods = {n.name: n for n in vis.body if isinstance(n, ast.FunctionDef)}
    extra = set(methods) - {"__init__", "visit_Name", "visit_Call", "generic_visit"}
    if extra:
        raise TranslationError("unmodelled visitor methods: %s" % sorted(extra))

    # visit_Name: if node.id not in self.allowed_names: raise ExpressionError
    b = _body_wo_doc(methods["visit_Name"])
    name_ok = (len(b) == 1 and isinstance(b[0], ast.If) and ast.unparse(b[0].test) == "node.id not in self.allowed_names"
               and len(b[0].body) == 1 and _is_raise_expr_error(b[0].body[0]) and not b[0].orelse)
    if not name_ok:
        raise TranslationError("visit_Name: unexpected shape")

    # visit_Call: guard + loops
    b = _body_wo_doc(methods["visit_Call"])
    if not (b and isinstance(b[0], ast.If) and len(b[0].body) == 1 and _is_raise_expr_error(b[0].body[0]) and not b[0].orelse):
        raise TranslationError("visit_Call: first statement is not the call-target guard")
    guard = ast.unparse(b[0].test)
    if guard != "not isinstance(node.func, ast.Name) or node.func.id not in self._ALLOWED_FUNCS":
        raise TranslationError("visit_Call: unexpected guard: " + guard)
    visited = []
    kwpolicy = "KwIgnored"
    for st in b[1:]:
        if isinstance(st, ast.For) and isinstance(st.target, ast.Name) and len(st.body) == 1 and not st.orelse:
            it = ast.unparse(st.iter)
            call = ast.unparse(st.body[0])
            v = st.target.id
            if it == "node.args" and call == "self.visit(%s)" % v:
                visited.append("args")
            elif it == "node.keywords" and call == "self.visit(%s.value)" % v:
                kwpolicy = "KwValuesVisited"
            elif it == "node.keywords" and call == "self.visit(%s)" % v:
                kwpolicy = "KwVisited"
            else:
                raise TranslationError("visit_Call: unexpected loop: " + ast.unparse(st))
        elif isinstance(st, ast.If) and ast.unparse(st.test) == "node.keywords" and len(st.body) == 1 \
                and _is_raise_expr_error(st.body[0]) and not st.orelse:
            kwpolicy = "KwRejected"
        else:
            raise TranslationError("visit_Call: unexpected statement: " + ast.unparse(st))
    if "args" not in visited:
        raise TranslationError("visit_Call: positional arguments are not visited")

    # generic_visit: type test then super().generic_visit(node)
    b = _body_wo_doc(methods["generic_visit"])
    gen_ok = (len(b) == 2 and isinstance(b[0], ast.If) and ast.unparse(b[0].test) == "type(node) not in self._ALLOWED_NODES"
              and len(b[0].body) == 1 and _is_raise_expr_error(b[0].body[0]) and not b[0].orelse
              and ast.unparse(b[1]) == "super().generic_visit(node)")
    if not gen_ok:
        raise TranslationError("generic_visit: unexpected shape")

    ev = find_def(tree, "ExpressionEvaluator", ast.ClassDef)
    init = [n for n in ev.body if isinstance(n, ast.FunctionDef) and n.name == "__init__"][0]
    envd = find_assign(init, "env")
    if not isinstance(envd, ast.Dict):
        raise TranslationError("env is not a dict literal")
    env_keys = []
    for k, v in zip(envd.keys, envd.values):
        if not (isinstance(k, ast.Constant) and isinstance(v, ast.Name) and v.id == k.value):
            raise TranslationError("env entry %s is not name->same builtin" % ast.unparse(k))
        env_keys.append(k.value)
    # env["__builtins__"] = {} (an empty mapping) in __init__, after the whitelisted functions: the interpreter's builtins are blocked
    blocked = False
    for n in ast.walk(init):
        if isinstance(n, ast.Assign) and len(n.targets) == 1 and ast.unparse(n.targets[0]).replace('"', "'") == "env['__builtins__']":
            if not (isinstance(n.value, ast.Dict) and not n.value.keys):
                raise TranslationError("env['__builtins__'] is assigned something else than an empty mapping: " + ast.unparse(n.value))
            blocked = True
    if "__builtins__" in env_keys:
        raise TranslationError("__builtins__ inside the env literal: unexpected shape")
    comp = [n for n in ev.body if isinstance(n, ast.FunctionDef) and n.name == "compile"][0]
    body = _body_wo_doc(comp)
    # the parse / validate / compile statements may sit in the body of one leading try (its handlers only re-raise the
    # expression error): order is judged on the flattened sequence
    if body and isinstance(body[0], ast.Try):
        for h in body[0].handlers:
            if not (len(h.body) == 1 and _is_raise_expr_error(h.body[0])):
                raise TranslationError("compile(): a handler of the leading try does something else than raising ExpressionError")
        if body[0].orelse or body[0].finalbody:
            raise TranslationError("compile(): leading try has else / finally")
        flat = list(body[0].body) + list(body[1:])
    else:
        flat = list(body)
    stmts = [ast.unparse(s) for s in flat]
    # order: try-parse ; visit ; compile ; def _fn ; return
    try:
        i_visit = next(i for i, s in enumerate(stmts) if s == "_SafeVisitor(allowed_names).visit(tree)")
        i_comp = next(i for i, s in enumerate(stmts) if s.startswith("code = compile(tree"))
    except StopIteration:
        raise TranslationError("compile(): visit / compile statements not found")
    if stmts[0] != "tree = ast.parse(expr, mode='eval')" or not isinstance(body[0], ast.Try):
        raise TranslationError("compile(): does not start with a try around ast.parse(expr, mode='eval')")
    visit_before = i_visit < i_comp
    fn = [n for n in comp.body if isinstance(n, ast.FunctionDef) and n.name == "_fn"]
    if len(fn) != 1 or ast.unparse(fn[0].body[-1]) != "return eval(code, self.env, kwargs)":
        raise TranslationError("compile(): _fn does not eval(code, self.env, kwargs)")
    if any("eval(" in s or "exec(" in s for s in stmts[:i_visit]):
        raise TranslationError("compile(): evaluation before the visitor runs")

    text = """(* GENERATED from %s by harness/translate/safe_eval.py — do not edit *)
From Coq Require Import List String Bool. Import ListNotations.
From SV Require Import Model.SafeEval.
Open Scope string_scope.
Definition tables : Tables :=
  mkTables
    %s
    %s
    %s
    %s
    %s
    %s %s %s.
Definition visit_before_compile : bool := %s.
Definition builtins_blocked : bool := %s.
Definition translation_failed := false.
""" % (SRC, cq_list(allowed_nodes, cq_str), cq_list(allowed_funcs, cq_str), cq_list(env_keys, cq_str),
       cq_list(visited, cq_str), kwpolicy, cq_bool(True), cq_bool(True), cq_bool(True), cq_bool(visit_before), cq_bool(blocked))
    return text, [path]
