"""semantiva/metadata/semantic_id.py -> Gen/SemanticIdGen.v

Facts extracted:
  * comm_ops: the operator classes that `_dump_ast_commutative.norm` treats as
    commutative/associative (the isinstance tuple on `n.op`), and that `collect`
    flattens chains of the same operator type;
  * the sort key is `ast.dump(t, include_attributes=False)`;
  * the final dump is `ast.dump(canonical, include_attributes=False)`;
  * _UI_ONLY_KEYS, hash prefixes and json.dumps options of the id functions.
"""
import ast

from harness.translate import TranslationError, find_assign, find_def, parse
from harness.core import cq_list, cq_str

OUT = "SemanticIdGen.v"
SRC = "semantiva/metadata/semantic_id.py"

BINOPS = {"Add": "Add", "Sub": "Sub", "Mult": "Mult", "FloorDiv": "FloorDiv", "Mod": "Mod", "Pow": "Pow"}

FALLBACK = """From Coq Require Import List String. Import ListNotations.
From SV Require Import Model.Expr.
Definition comm_ops : list binop := [].
Definition translation_failed := true.
"""


def _ast_attr_names(node):
    """(ast.Add, ast.Mult) -> ['Add','Mult']"""
    elts = node.elts if isinstance(node, ast.Tuple) else [node]
    out = []
    for e in elts:
        if isinstance(e, ast.Attribute) and isinstance(e.value, ast.Name) and e.value.id == "ast":
            out.append(e.attr)
        else:
            raise TranslationError("unexpected operator class expression: " + ast.unparse(e))
    return out


def _is_dump_no_attrs(call):
    return (isinstance(call, ast.Call) and ast.unparse(call.func) == "ast.dump" and len(call.args) == 1
            and [(k.arg, ast.unparse(k.value)) for k in call.keywords] == [("include_attributes", "False")])


def _dumps_opts(fn):
    """Return the (sort_keys, separators) of the single json.dumps call in fn."""
    calls = [n for n in ast.walk(fn) if isinstance(n, ast.Call) and ast.unparse(n.func) == "json.dumps"]
    if len(calls) != 1:
        raise TranslationError("%s: expected exactly one json.dumps call" % fn.name)
    kw = {k.arg: ast.unparse(k.value) for k in calls[0].keywords}
    if kw != {"sort_keys": "True", "separators": "(',', ':')"}:
        raise TranslationError("%s: unexpected json.dumps options %r" % (fn.name, kw))
    return True


def _fstring_prefix(fn):
    pre = []
    for n in ast.walk(fn):
        if isinstance(n, ast.JoinedStr):
            if not (len(n.values) == 2 and isinstance(n.values[0], ast.Constant) and isinstance(n.values[1], ast.FormattedValue)):
                raise TranslationError("%s: unexpected f-string shape" % fn.name)
            pre.append(n.values[0].value)
    if len(pre) != 1:
        raise TranslationError("%s: expected one f-string prefix" % fn.name)
    return pre[0]


def translate():
    tree, path = parse(SRC)
    fn = find_def(tree, "_dump_ast_commutative", ast.FunctionDef)
    norm = find_def(fn, "norm", ast.FunctionDef)
    # first statement of norm: `if isinstance(n, ast.BinOp) and isinstance(n.op, (<ops>)):`
    first = norm.body[0]
    if not (isinstance(first, ast.If) and isinstance(first.test, ast.BoolOp) and isinstance(first.test.op, ast.And)
            and len(first.test.values) == 2):
        raise TranslationError("norm: first statement is not the commutative-BinOp test")
    a, b = first.test.values
    if ast.unparse(a) != "isinstance(n, ast.BinOp)":
        raise TranslationError("norm: unexpected first conjunct " + ast.unparse(a))
    if not (isinstance(b, ast.Call) and ast.unparse(b.func) == "isinstance" and ast.unparse(b.args[0]) == "n.op"):
        raise TranslationError("norm: unexpected second conjunct " + ast.unparse(b))
    ops = _ast_attr_names(b.args[1])
    for o in ops:
        if o not in BINOPS:
            raise TranslationError("operator %s outside the modelled binary operators" % o)
    # collect flattens only chains of the same operator type
    collect = find_def(first, "collect", ast.FunctionDef)
    ctest = ast.unparse(collect.body[0].test) if isinstance(collect.body[0], ast.If) else ""
    if ctest != "isinstance(term, ast.BinOp) and isinstance(term.op, op_type)":
        raise TranslationError("collect: unexpected flattening test: " + ctest)
    if "op_type = type(n.op)" not in ast.unparse(first):
        raise TranslationError("norm: op_type is not type(n.op)")
    # sort key
    sorts = [n for n in ast.walk(first) if isinstance(n, ast.Call) and isinstance(n.func, ast.Attribute) and n.func.attr == "sort"]
    if len(sorts) != 1 or len(sorts[0].keywords) != 1 or sorts[0].keywords[0].arg != "key":
        raise TranslationError("norm: expected exactly one .sort(key=...)")
    lam = sorts[0].keywords[0].value
    if not (isinstance(lam, ast.Lambda) and _is_dump_no_attrs(lam.body)):
        raise TranslationError("norm: sort key is not ast.dump(t, include_attributes=False)")
    # rebuild: left-associated fold with the same operator
    if "ast.BinOp(left=current, op=op_type(), right=term_expr)" not in ast.unparse(first):
        raise TranslationError("norm: rebuild is not a left fold with op_type()")
    # final dump
    ret = fn.body[-1]
    if not (isinstance(ret, ast.Return) and _is_dump_no_attrs(ret.value)):
        raise TranslationError("_dump_ast_commutative: final dump is not ast.dump(canonical, include_attributes=False)")

    ui = find_assign(tree, "_UI_ONLY_KEYS")
    ui_keys = sorted(e.value for e in ui.elts)

    nsem = find_def(tree, "compute_node_semantic_id", ast.FunctionDef)
    psem = find_def(tree, "compute_pipeline_semantic_id", ast.FunctionDef)
    pcfg = find_def(tree, "compute_pipeline_config_id", ast.FunctionDef)
    sj = find_def(tree, "_sha256_json", ast.FunctionDef)
    _dumps_opts(nsem), _dumps_opts(psem), _dumps_opts(sj)
    node_prefix = _fstring_prefix(nsem)
    pipe_prefix = _fstring_prefix(psem)
    # structure fields of the pipeline semantic id
    struct_keys = []
    for n in ast.walk(psem):
        if isinstance(n, ast.Dict) and all(isinstance(k, ast.Constant) for k in n.keys) and \
                any(isinstance(v, ast.Call) and ast.unparse(v.func) == "node.get" for v in n.values):
            for k, v in zip(n.keys, n.values):
                if ast.unparse(v) != "node.get(%r)" % k.value:
                    raise TranslationError("pipeline semantic structure: field %s is not node.get of itself" % k.value)
                struct_keys.append(k.value)
    if not struct_keys:
        raise TranslationError("pipeline semantic structure not found")
    # config id: sorted by first component, "plcid-" prefix
    srcc = ast.unparse(pcfg)
    if "sorted(pairs, key=lambda item: item[0])" not in srcc or "'plcid-' + _sha256_json(ordered)" not in srcc:
        raise TranslationError("compute_pipeline_config_id: unexpected shape")
    # node semantic id drops the raw-source key "expr": either at any depth of the metadata (together with a recursive
    # UI-only strip), or -- the repaired shape -- only inside the entries of param_expressions (UI-only strip at the top
    # level only).  Any other shape fails closed.
    nsrc = ast.unparse(nsem)
    sui = find_def(tree, "_strip_ui_only", ast.FunctionDef)
    sui_rec = any(isinstance(n, ast.Call) and ast.unparse(n.func) == "_strip_ui_only" for n in ast.walk(sui))
    canon = find_def(nsem, "_canonicalize", ast.FunctionDef)
    canon_rec = any(isinstance(n, ast.Call) and ast.unparse(n.func) == "_canonicalize" for n in ast.walk(canon))
    unp = lambda n: ast.unparse(n).replace("(k, v)", "k, v").replace("(key, value)", "key, value")   # (3.8 vs 3.12 unparse)
    csrc = unp(canon)
    if "payload = _strip_ui_only(preproc_meta)" not in nsrc or "canonical = _canonicalize(payload)" not in nsrc:
        raise TranslationError("compute_node_semantic_id: unexpected sanitising pipeline")
    if sui_rec and canon_rec and "for k, v in obj.items() if k != 'expr'" in csrc:
        scoped = False
    elif (not sui_rec) and (not canon_rec) and "obj.get('param_expressions')" in csrc \
            and "for k, v in entry.items() if k != 'expr'" in csrc and "{**obj, 'param_expressions': sanitized}" in csrc \
            and "for key, value in obj.items() if key not in _UI_ONLY_KEYS" in unp(sui):
        scoped = True
    else:
        raise TranslationError("compute_node_semantic_id: sanitiser is neither the any-depth nor the scoped shape")

    text = """(* GENERATED from %s by harness/translate/semantic_id.py — do not edit *)
From Coq Require Import List String Bool. Import ListNotations.
From SV Require Import Model.Expr.
Open Scope string_scope.
Definition comm_ops : list binop := %s.
Definition comm (o : binop) : bool := existsb (binop_eqb o) comm_ops.
Definition ui_only_keys : list string := %s.
Definition node_sem_prefix : string := %s.
Definition pipeline_sem_prefix : string := %s.
Definition pipeline_sem_fields : list string := %s.
Definition config_id_prefix : string := "plcid-".
Definition semantic_id_prefix : string := "plsemid-".
Definition node_sem_dropped_key : string := "expr".
Definition node_sem_strip_scoped : bool := %s.
Definition translation_failed := false.
""" % (SRC, cq_list([BINOPS[o] for o in ops]), cq_list(ui_keys, cq_str), cq_str(node_prefix), cq_str(pipe_prefix),
       cq_list(struct_keys, cq_str), "true" if scoped else "false")
    return text, [path]
