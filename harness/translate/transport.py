"""semantiva/execution/transport/in_memory.py -> Gen/TransportGen.v  (+ `analyse()` for the scheduler)

Structural facts (each an AST pattern, fail closed on any other shape):
  * atomic_create : the queue of a new channel is created by one atomic operation -- the lookup
    `self._queues[channel]` happens inside `with self.<lock>:` (<lock> assigned threading.Lock()/RLock() in
    __init__), or is a C-level `self._queues.setdefault(channel, ...)`.  False when `publish` does a bare
    `self._queues[channel]` on a defaultdict whose factory is a Python-level lambda (the factory call is a
    preemptible Python frame between the failed lookup and the store).
  * locked_ops    : `q.append(msg)` and `q.popleft() if q else None` are each the body of a `with lock:`.
  * anchors       : source positions of the model events, by AST shape (never by literal line number):
      publish : statement holding the lookup -> Lookup ; `msg = Message(...)` -> MkMsg ; the append -> Append
      lambda  : `call` event -> FactoryCall ; its line -> Store
      __iter__: `for .. in list(self._queues.items())` -> For (first entry = snapshot) ; `if fnmatch(..)` -> Match ;
                the popleft -> Pop ; `if msg:` -> Check ; `yield msg` -> Yield ; everything else -> Tau
    plus the header span of every statement (continuation lines of one statement are not switch points) and the
    body spans of every `with <lock>:` (never a switch point: a parked thread must not hold a real lock).
"""
import ast
import os

from harness import core
from harness.core import cq_bool, cq_list, cq_str
from harness.translate import TranslationError, find_def

OUT = "TransportGen.v"
SRC = "semantiva/execution/transport/in_memory.py"

FALLBACK = """From Coq Require Import List String. Import ListNotations.
From SV Require Import Model.Transport.
Definition atomic_create : bool := false.
Definition locked_ops : bool := false.
Definition facts : config := mkConfig atomic_create locked_ops.
Definition anchors : list (string * string * nat) := [].
Definition closed_tested_before_pop : bool := false.
Definition translation_failed := true.
"""


def _body_wo_doc(fn):
    b = fn.body
    if b and isinstance(b[0], ast.Expr) and isinstance(b[0].value, ast.Constant) and isinstance(b[0].value.value, str):
        b = b[1:]
    return b


def _u(n):
    return ast.unparse(n)


def _header_span(st):
    """(first, last) line of the part of a statement that is evaluated when the statement is entered."""
    if isinstance(st, (ast.For, ast.AsyncFor)):
        return st.lineno, st.iter.end_lineno
    if isinstance(st, (ast.While, ast.If)):
        return st.lineno, st.test.end_lineno
    if isinstance(st, (ast.With, ast.AsyncWith)):
        return st.lineno, st.items[-1].context_expr.end_lineno
    if isinstance(st, (ast.Try, ast.FunctionDef, ast.ClassDef)):
        raise TranslationError("unmodelled compound statement at line %d: %s" % (st.lineno, type(st).__name__))
    return st.lineno, st.end_lineno


def _walk_stmts(body):
    for st in body:
        yield st
        for f in ("body", "orelse", "finalbody"):
            sub = getattr(st, f, None)
            if isinstance(sub, list) and sub and isinstance(sub[0], ast.stmt):
                yield from _walk_stmts(sub)


def _mentions_queues(node):
    return any(isinstance(n, ast.Attribute) and n.attr == "_queues" for n in ast.walk(node))


def analyse(repo=None):
    repo = repo or core.REPO
    path = os.path.join(repo, SRC)
    src = open(path).read()
    tree = ast.parse(src)
    imports = [_u(n) for n in tree.body if isinstance(n, (ast.Import, ast.ImportFrom))]
    if "from fnmatch import fnmatch" not in imports:
        raise TranslationError("fnmatch is not imported from the standard fnmatch module")
    tr = find_def(tree, "InMemorySemantivaTransport", ast.ClassDef)
    sub = find_def(tree, "InMemorySubscription", ast.ClassDef)
    meth = {n.name: n for n in tr.body if isinstance(n, ast.FunctionDef)}
    smeth = {n.name: n for n in sub.body if isinstance(n, (ast.FunctionDef, ast.AsyncFunctionDef))}
    for need in ("__init__", "publish", "subscribe"):
        if need not in meth:
            raise TranslationError("InMemorySemantivaTransport.%s not found" % need)
    if "__iter__" not in smeth:
        raise TranslationError("InMemorySubscription.__iter__ not found")

    # ---- __init__: the queue table and lock attributes
    factory = None
    table_kind = None
    lock_attrs = []
    for st in _walk_stmts(_body_wo_doc(meth["__init__"])):
        tgt = val = None
        if isinstance(st, ast.Assign) and len(st.targets) == 1:
            tgt, val = st.targets[0], st.value
        elif isinstance(st, ast.AnnAssign) and st.value is not None:
            tgt, val = st.target, st.value
        if tgt is None or not (isinstance(tgt, ast.Attribute) and isinstance(tgt.value, ast.Name) and tgt.value.id == "self"):
            continue
        if tgt.attr == "_queues":
            if isinstance(val, ast.Call) and _u(val.func) in ("defaultdict", "collections.defaultdict") and len(val.args) == 1:
                f = val.args[0]
                if not (isinstance(f, ast.Lambda) and not f.args.args and _u(f.body) in
                        ("(deque(), threading.Lock())", "(deque(), Lock())", "(deque(), threading.RLock())")):
                    raise TranslationError("_queues factory is not `lambda: (deque(), threading.Lock())`: " + _u(f))
                factory, table_kind = f, "defaultdict-lambda"
            elif _u(val) in ("{}", "dict()"):
                table_kind = "dict"
            else:
                raise TranslationError("unexpected _queues initialiser: " + _u(val))
        elif _u(val) in ("threading.Lock()", "threading.RLock()", "Lock()", "RLock()"):
            lock_attrs.append(tgt.attr)
    if table_kind is None:
        raise TranslationError("self._queues is not initialised in __init__")

    def is_lock_expr(e):
        return (isinstance(e, ast.Name) and e.id == "lock") or \
               (isinstance(e, ast.Attribute) and isinstance(e.value, ast.Name) and e.value.id == "self" and e.attr in lock_attrs)

    funcs = {}

    def scan(fn, name):
        info = {"first": fn.lineno, "last": fn.end_lineno, "events": {}, "headers": [], "lock_bodies": []}
        for st in _walk_stmts(_body_wo_doc(fn)):
            info["headers"].append(list(_header_span(st)))
            info["events"][st.lineno] = "Tau"
            if isinstance(st, ast.With):
                if len(st.items) != 1 or not is_lock_expr(st.items[0].context_expr):
                    raise TranslationError("%s: `with %s` is not a recognised lock" % (name, _u(st.items[0].context_expr)))
                info["lock_bodies"].append([st.lineno, st.body[0].lineno, st.body[-1].end_lineno])
        funcs[name] = info
        return info

    # ---- publish
    pub = meth["publish"]
    if [a.arg for a in pub.args.args][:4] != ["self", "channel", "data", "context"]:
        raise TranslationError("publish: unexpected parameters")
    pinfo = scan(pub, "publish")
    top = _body_wo_doc(pub)
    lookups = [st for st in top if _mentions_queues(st)]
    if len(lookups) != 1:
        raise TranslationError("publish: expected exactly one statement touching self._queues, found %d" % len(lookups))
    lk = lookups[0]
    bare = "q, lock = self._queues[channel]"
    if isinstance(lk, ast.Assign) and _u(lk) == bare:
        if table_kind != "defaultdict-lambda":
            raise TranslationError("publish: bare lookup on a table that is not the lambda defaultdict")
        atomic_create = False
    elif isinstance(lk, ast.With) and len(lk.body) == 1 and _u(lk.body[0]) == bare and \
            isinstance(lk.items[0].context_expr, ast.Attribute) and lk.items[0].context_expr.attr in lock_attrs:
        atomic_create = True
    elif isinstance(lk, ast.Assign) and _u(lk).startswith("q, lock = self._queues.setdefault(channel, (deque(), ") \
            and table_kind == "dict":
        atomic_create = True
    else:
        raise TranslationError("publish: unrecognised queue lookup/creation: " + _u(lk).split("\n")[0])
    pinfo["events"][lk.lineno] = "Lookup"
    mk = [st for st in top if isinstance(st, ast.Assign) and _u(st.targets[0]) == "msg"]
    if len(mk) != 1 or not (isinstance(mk[0].value, ast.Call) and _u(mk[0].value.func) == "Message"):
        raise TranslationError("publish: `msg = Message(...)` not found")
    if any(isinstance(n, ast.Name) and n.id == "self" for n in ast.walk(mk[0])):
        raise TranslationError("publish: message construction reads shared state")
    pinfo["events"][mk[0].lineno] = "MkMsg"
    app = [st for st in _walk_stmts(top) if isinstance(st, ast.Expr) and _u(st) == "q.append(msg)"]
    if len(app) != 1:
        raise TranslationError("publish: expected exactly one q.append(msg)")
    app_with = [st for st in top if isinstance(st, ast.With) and st.body == app and _u(st.items[0].context_expr) == "lock"]
    if app_with:
        locked_append = True
        pinfo["events"][app_with[0].lineno] = "Append"
    elif app[0] in top:
        locked_append = False
        pinfo["events"][app[0].lineno] = "Append"
    else:
        raise TranslationError("publish: q.append(msg) in an unrecognised position")
    if not (top.index(lk) < top.index(mk[0]) < top.index(app_with[0] if app_with else app[0])):
        raise TranslationError("publish: lookup / message / append are not in this order")
    for st in top:
        if st not in (lk, mk[0]) and st not in app_with and st not in app:
            if not isinstance(st, (ast.If, ast.Return)) or any(
                    isinstance(n, ast.Name) and n.id in ("q", "lock", "msg") for n in ast.walk(st)):
                raise TranslationError("publish: unmodelled statement: " + _u(st).split("\n")[0])

    # ---- factory lambda
    lam = None
    if factory is not None:
        lam = {"line": factory.lineno, "body_line": factory.body.lineno}
        if factory.body.lineno != factory.body.end_lineno:
            raise TranslationError("factory lambda body spans several lines")

    # ---- __iter__
    it = smeth["__iter__"]
    iinfo = scan(it, "__iter__")
    body = _body_wo_doc(it)
    if not (len(body) == 1 and isinstance(body[0], ast.While) and _u(body[0].test) == "not self._closed" and not body[0].orelse):
        raise TranslationError("__iter__: not a single `while not self._closed:` loop")
    wb = body[0].body
    if not (len(wb) == 3 and _u(wb[0]) == "found = False" and isinstance(wb[1], ast.For)
            and _u(wb[2]).replace("\n", " ").split() == "if not found: break".split()):
        raise TranslationError("__iter__: loop body is not [found=False; for; if not found: break]")
    fr = wb[1]
    if not (_u(fr.target) == "(channel, (q, lock))" and _u(fr.iter) == "list(self._queues.items())" and not fr.orelse):
        raise TranslationError("__iter__: scan is not `for channel, (q, lock) in list(self._queues.items())`: %s in %s"
                               % (_u(fr.target), _u(fr.iter)))
    iinfo["events"][fr.lineno] = "For"
    if not (len(fr.body) == 1 and isinstance(fr.body[0], ast.If) and _u(fr.body[0].test) == "fnmatch(channel, self._pattern)"
            and not fr.body[0].orelse):
        raise TranslationError("__iter__: for body is not `if fnmatch(channel, self._pattern):`")
    mt = fr.body[0]
    iinfo["events"][mt.lineno] = "Match"
    popsrc = "msg = q.popleft() if q else None"
    if len(mt.body) != 2:
        raise TranslationError("__iter__: match body is not [pop; if msg]")
    p0, chk = mt.body
    if isinstance(p0, ast.With) and _u(p0.items[0].context_expr) == "lock" and len(p0.body) == 1 and _u(p0.body[0]) == popsrc:
        locked_pop = True
    elif isinstance(p0, ast.Assign) and _u(p0) == popsrc:
        locked_pop = False
    else:
        raise TranslationError("__iter__: unrecognised pop: " + _u(p0).split("\n")[0])
    iinfo["events"][p0.lineno] = "Pop"
    if not (isinstance(chk, ast.If) and _u(chk.test) == "msg" and not chk.orelse
            and [_u(s) for s in chk.body] == ["found = True", "yield msg", "break"]):
        raise TranslationError("__iter__: `if msg: found = True; yield msg; break` not found")
    iinfo["events"][chk.lineno] = "Check"
    iinfo["events"][chk.body[1].lineno] = "Yield"

    # subscribe hands the shared table to the subscription
    subm = _body_wo_doc(meth["subscribe"])
    if not any(_u(s) == "sub = InMemorySubscription(self._queues, channel)" for s in subm):
        raise TranslationError("subscribe: does not build InMemorySubscription(self._queues, channel)")
    sinit = smeth.get("__init__")
    if sinit is None or "self._queues = queues" not in [_u(s) for s in _body_wo_doc(sinit)] \
            or "self._pattern = pattern" not in [_u(s) for s in _body_wo_doc(sinit)]:
        raise TranslationError("InMemorySubscription.__init__: unexpected shape")

    return {"path": path, "atomic_create": atomic_create, "locked_ops": bool(locked_append and locked_pop),
            "locked_append": locked_append, "locked_pop": locked_pop, "table": table_kind,
            "lambda": lam, "funcs": funcs}


def translate():
    a = analyse()
    rows = []
    for fn in ("publish", "__iter__"):
        for line, ev in sorted(a["funcs"][fn]["events"].items()):
            if ev != "Tau":
                rows.append("(%s, %s, %d)" % (cq_str(fn), cq_str(ev), line))
    if a["lambda"]:
        rows.append("(%s, %s, %d)" % (cq_str("<lambda>"), cq_str("FactoryCall"), a["lambda"]["line"]))
        rows.append("(%s, %s, %d)" % (cq_str("<lambda>"), cq_str("Store"), a["lambda"]["body_line"]))
    text = """(* GENERATED from %s by harness/translate/transport.py -- do not edit *)
From Coq Require Import List String Bool. Import ListNotations.
From SV Require Import Model.Transport.
Open Scope string_scope.
(* queue creation for a new channel is one atomic operation (under a lock / C-level) *)
Definition atomic_create : bool := %s.
(* q.append and the check-and-popleft are each the body of `with lock:` *)
Definition locked_ops : bool := %s.
Definition facts : config := mkConfig atomic_create locked_ops.
(* source anchors of the model events (function, event, line) -- informational, used by the scheduler *)
Definition anchors : list (string * string * nat) := %s.
Definition closed_tested_before_pop : bool := true.
Definition translation_failed := false.
""" % (SRC, cq_bool(a["atomic_create"]), cq_bool(a["locked_ops"]), cq_list(rows))
    return text, [a["path"]]



def analyse_generic(repo=None):
    """Fallback when the anchored analysis fails (the transport was reshaped): every function and
    lambda of in_memory.py becomes schedulable at statement granularity, every `with` body is
    treated as a critical section (never a switch point).  No model events: only the direct
    oracle can be applied to schedules explored with these points."""
    import ast as _ast
    import os as _os
    from harness import core as _core
    path = _os.path.join(repo or _core.REPO, "semantiva/execution/transport/in_memory.py")
    tree = _ast.parse(open(path).read())
    funcs, lam = {}, None
    for node in _ast.walk(tree):
        if isinstance(node, (_ast.FunctionDef, _ast.AsyncFunctionDef)) and node.name not in ("__init__", "connect", "close"):
            info = {"first": node.lineno, "last": node.end_lineno, "events": {}, "headers": [], "lock_bodies": []}
            body = node.body[1:] if (node.body and isinstance(node.body[0], _ast.Expr) and isinstance(getattr(node.body[0], "value", None), _ast.Constant)) else node.body
            def gwalk(stmts):
                for st in stmts:
                    if isinstance(st, (_ast.FunctionDef, _ast.AsyncFunctionDef, _ast.ClassDef)):
                        continue   # nested definitions are scanned as functions of their own
                    yield st
                    for f in ("body", "orelse", "finalbody", "handlers"):
                        sub = getattr(st, f, None)
                        if isinstance(sub, list):
                            for x in sub:
                                if isinstance(x, _ast.ExceptHandler):
                                    yield from gwalk(x.body)
                            if sub and isinstance(sub[0], _ast.stmt):
                                yield from gwalk(sub)
            for st in gwalk(body):
                if isinstance(st, _ast.Try):
                    span = (st.lineno, st.lineno)
                else:
                    span = _header_span(st)
                info["headers"].append(list(span))
                info["events"][st.lineno] = "Tau"
                if isinstance(st, _ast.With):
                    info["lock_bodies"].append([st.lineno, st.body[0].lineno, st.body[-1].end_lineno])
            # several classes may define the same method name: keep them apart by first line
            funcs.setdefault(node.name, info)
            if funcs[node.name] is not info:
                funcs[node.name + "@%d" % node.lineno] = info
        if isinstance(node, _ast.Lambda) and lam is None:
            lam = {"line": node.lineno, "body_line": node.body.lineno}
    return {"path": path, "funcs": funcs, "lambda": lam, "atomic_create": None, "locked_ops": None, "table": "unknown", "generic": True}
