#!/usr/bin/env python3
"""Run /repo's pinned test suite and compare with /root/.vp/BASELINE.json (stable_pass)."""
import json, os, subprocess, sys, tempfile
import xml.etree.ElementTree as ET
base = json.load(open("/root/.vp/BASELINE.json"))
fd, path = tempfile.mkstemp(suffix=".xml"); os.close(fd)
cmd = base["cmd"].replace("<file>", path)
env = dict(os.environ); env.pop("SEMANTIVA_VERIF", None)
p = subprocess.run(cmd, shell=True, env=env, stdout=subprocess.PIPE, stderr=subprocess.STDOUT, text=True)
passed = set()
for tc in ET.parse(path).getroot().iter("testcase"):
    if not any(ch.tag in ("failure", "error", "skipped") for ch in tc):
        passed.add(tc.get("classname") + "::" + tc.get("name"))
os.remove(path)
missing = [t for t in base["stable_pass"] if t not in passed]
print("passed=%d stable=%d missing=%d" % (len(passed), len(base["stable_pass"]), len(missing)))
for m in missing[:30]:
    print("  NOT PASSING:", m)
sys.exit(1 if missing else 0)
