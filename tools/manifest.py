#!/usr/bin/env python3
"""Regenerate /verif/MANIFEST.json from the table below (keeps it valid and current)."""
import json
import os

ROOT = os.path.dirname(os.path.dirname(os.path.abspath(__file__)))

COMMON_NOTE = ("Trusted: Coq 8.16.1 kernel + vm_compute (no native_compute, no axioms declared; Print Assumptions of every "
               "property theorem is recorded in evidence); the hand-written Gallina model named below; the fail-closed ast "
               "translator producing coq/Gen/*.v; the correspondence harness (generators, drivers of /repo code, Gallina literal emission). ")

CLAIMED = {
    "C01": {
        "text": "Theorems over a generic executable model of node execution (processors are records with function-valued fields, so every law holds for every "
                "processor): resolution precedence config > context > default > KeyError, operations/sources replace data, probes pass data through and write exactly "
                "their context key, sinks pass through, context processors touch only declared keys (frame lemmas on every other key), undeclared writes fail, "
                "slicers are element-wise maps with first-failure-wins, run (p ++ q) composes in declaration order, a failure at node j means exactly nodes 0..j ran "
                "and nothing after j matters, construction errors pre-empt everything. Closed under the global context. The executor instantiated with a Gallina copy "
                "of the component library is run against Pipeline.process on generated pipelines every run (outcome, data, context, failing index, exception class/stage).",
        "note": "Models coq/Model/Pipeline.v, Sweep.v, PipelineLib.v; float arithmetic over Z (integer-valued floats only; other cases dropped and counted); numpy scalar corner cases "
                "(division by zero to inf, np.float64 repr inside rendered strings) are outside the model and avoided/dropped by the generator.",
        "technique": "Coq proof over generic executable model + generated tables + differential correspondence (vm_compute)",
        "design": "DESIGN.md section 6, C01",
    },
    "C02": {
        "text": "Theorem (simulation between the inspector's abstract state and the executor, by induction over the node list, for every pipeline, payload and context): if no node "
                "error is reported and the initial context supplies every required key, then every node that is reached resolves all of its parameters - the run never fails because a "
                "parameter is unresolvable or a required key is missing or was deleted, and (second simulation, over the data-type flow) no reached data node fails the type gate. It needs the order-sensitive required-key accumulation and the deleted-at-entry check, which are "
                "generated facts with hard reflexivity obligations (all inspection defects found by the check were repaired by fix commits); for each former variant a concrete accepted "
                "pipeline that fails on flow is proved (use-before-create, type flow across a context-only node, delete-then-rename). Per-node facts: reported created/suppressed keys are "
                "the declared ones, unknown parameters are rejected by the same function at inspection and construction; reported origins are true of the run whose initial context holds just the "
                "required keys (upper and lower simulation invariants): a parameter finally reported 'default' finds its key absent and takes its default, one reported 'context' takes the context value "
                "(C02_origin_default_truthful / C02_origin_context_truthful; the inspector's second pass over shadowed defaults is a generated fact). Closed under the global context. The whole inspection report "
                "(origins, created, suppressed, types, errors, required keys, validity) is compared with the model on generated pipelines every run, and every accepted pipeline is executed "
                "with exactly the required keys (and with extras) under three dynamic oracles.",
        "note": "Models coq/Model/Inspect.v + Pipeline.v. Soundness assumes honest processors (declared created keys are written; checked dynamically). Type-flow soundness (C02_no_type_gate_failure) additionally assumes processors produce their declared output type. The initial payload's data type must suit the first data node. "
                "Origin truthfulness assumes nodes write what they declare to create and delete what they declare to suppress (checked dynamically). 'Context produced by node j' is proved to name the last node declaring the key, with no declaring or suppressing node between it and the reader, so that the resolved value is the one present right after node j ran (C02_origin_names_last_writer); that a node writes nothing it does not declare is enforced by the executor model and checked dynamically on the implementation.",
        "technique": "Coq simulation proof (abstract interpretation soundness) + generated structural facts + whole-report differential correspondence + dynamic oracles",
        "design": "DESIGN.md section 6, C02",
    },
    "C03": {
        "text": "Theorems over an executable model of derive.parameter_sweep as a processor transformer: combinatorial mode is the Cartesian product over the variables in "
                "sorted-name order with a recursive mixed-radix index law (last variable fastest) and length = product; by_position aligns positions, broadcast cycles "
                "seq[i mod len] up to the maximum length, unequal lengths are rejected (never truncated); one element per step and element i is the wrapped processor on "
                "parameters merged computed > provided; probes pass data through and return one result per step; every variable's materialised sequence is published as "
                "<var>_values for sources, operations and (hard obligation on the repaired fact) probes; an explicit list is the sequence of its elements. "
                "Linear ranges over binary64 (Model/Linspace.v, PrimFloat: numpy.linspace as the factory calls it): one value per step, the last value is hi itself with the endpoint, "
                "every other value is lo + i*((hi-lo)/div) in IEEE arithmetic with numpy's association; compared bit for bit (float.hex) every run with what "
                "_materialize_sequences and whole swept pipelines produce for random bounds (ascending, descending, equal, denormal, huge). "
                "Closed under the global context (the range theorems mention the kernel's PrimFloat/PrimInt63 primitives). Sweep-centred pipelines run against both the fact-driven "
                "and the documented variant of the model every run.",
        "note": "Models coq/Model/Sweep.v, Pipeline.v, PipelineLib.v, Linspace.v; inside whole-pipeline model cases ranges have integer steps (float ranges are covered by the Linspace "
                "correspondence), log ranges not modelled (libm); expressions restricted to the arithmetic fragment with constant divisors (numpy scalars divide by zero to inf).",
        "technique": "Coq proof over executable model + generated facts + differential correspondence (Spec and Impl variants)",
        "design": "DESIGN.md section 6, C03",
    },
    "C04": {
        "text": "Theorems for every pair of hash functions: dumps_sorted is invariant under permutation of object members at any depth; all five identities (node uuids, node semantic ids, "
                "pipeline id, semantic id, config id) and the sorted required-key list are equal for configurations related by cfg_equiv (member permutation of every mapping incl. sweep variable / "
                "parameter maps, and AC-rearrangement of sweep expressions via the C12 relation); ids are pure: for every prior history of builds / runs / inspections the implementation-level model "
                "returns the Spec ids. The two facts the proofs need (sorted from_context keys, enrich-on-copy) are generated/probed with hard reflexivity obligations (both repaired by fix commits; "
                "refuted_when witnesses kept). Closed under the global context. Metamorphic correspondence: YAML rewrites x {in-process after other pipelines, fresh process} x hash seeds x working "
                "directories x four id paths, and string equality of the model's canonical JSON preimages with the implementation's.",
        "note": "Models coq/Model/Json.v, Identity.v; hash functions are Section variables (hash_ok premise has an Example); JSON strings restricted to printable ASCII without quote/backslash; per-node registry facts "
                "(class names, kinds) are read from the registry, not modelled.",
        "technique": "Coq proof (permutation invariance, refinement over histories) + generated/probed facts + metamorphic and preimage correspondence",
        "design": "DESIGN.md section 6, C04",
    },
    "C05": {
        "text": "Theorems: the canonical JSON text is injective (token-level prefix code and character-level rendering both proved); node_json differs for different positions (declaration_index), so node uuids "
                "are distinct within a pipeline; semantic id, node semantic id and config id discriminate in collision-explicit form (equal ids imply equal identity fields or an explicit hash collision); "
                "one lemma per mutation operator (processor, parameter value at any depth, insert/delete/swap, every sweep field incl. non-equivalent expressions via C12's sig_norm). The semantic id's "
                "dependence on the sweep block is a generated fact with a hard obligation (repaired by a fix commit). Closed under the global context. Every single-point mutation at every position of "
                "generated configurations is run through the implementation and compared with hashed model preimages; pairwise inequality is asserted directly on the implementation.",
        "note": "Same models as C04. The node-semantic-id sanitiser is modelled in both shapes (any-depth strip / scoped strip), selected by the generated fact node_sem_strip_scoped: "
                "C05_names_refuted_when (a sweep variable named 'expr' changes no identity under the any-depth shape) and the name-independent mutation lemmas under the scoped shape, "
                "which the current tree has (fix 3bfdd4d, hard obligation now_strip_scoped). Sequences of non-JSON values (dates, bytes) are outside the model's JSON domain and are judged by a direct oracle.",
        "technique": "Coq proof (injectivity of canonical JSON, collision-explicit discrimination) + generated facts + mutation correspondence",
        "design": "DESIGN.md section 6, C05",
    },
    "C09": {
        "text": "Theorems over a launch model (Spec = map of standalone runs in plan order up to the first failure; Impl = one Pipeline object and one driver reused across runs): per-run records equal the "
                "standalone ones, a run's records depend only on its own context (no leak), exactly one run_space_start first and one run_space_end last with truthful planned/completed counts and exit code, "
                "every pipeline_start carries launch id / attempt / 0-based index / context, inspect and runtime spec ids agree, spec id invariant under key order and discriminating modulo explicit collision, "
                "launch ids from an idempotency key reproducible, inputs id changes iff a fingerprint changes. The two facts (enrich-on-copy, spec-id paths agree) have hard obligations after the fix commits. "
                "Closed under the global context. End-to-end correspondence through CLI subprocesses (launch vs standalone runs, failing run at every index, file/directory output, id options, rewrites, mutations).",
        "note": "Model coq/Model/Launch.v (+RunSpace.v, Pipeline.v); hash functions are Section variables; canonical RSCF text compared as strings; directory-mode run-space files are merged by the harness.",
        "technique": "Coq proof (refinement Impl-to-Spec, bracket grammar) + generated facts + CLI end-to-end correspondence",
        "design": "DESIGN.md section 6, C09",
    },
    "C16": {
        "text": "Theorems by structural induction over a closed grammar of node configurations with unbounded slice/sweep nesting: every generated node and processor metadata view passes all error-level "
                "metadata rules of the contract catalogue, the node view mirrors the processor view (sources take NoDataType, sinks/probes pass their input type, probes add their context key), and gen is "
                "total exactly on valid configurations. The two facts needed (sweep created-key de-duplication, probe nodes mirroring processor keys) have hard obligations after the fix commits. Closed under "
                "the global context. Real classes are built through the real factories up to nesting depth 3, validate_component is run on node and processor classes, and metadata is compared with the model; "
                "the rule models are validated separately against the real rule functions.",
        "note": "Model coq/Model/Contracts.v; reflection-level rules (SVA001-012, 102, 241, 250) are checked by the correspondence run only, not proved.",
        "technique": "Coq structural induction over configuration grammar + generated rule/dispatch tables + differential correspondence on real generated classes",
        "design": "DESIGN.md section 6, C16",
    },
    "C17": {
        "text": "Theorems over a model of the CLI run command as an ordered decision chain regenerated from cli/__init__.py (every return attributed to a stage, exit-code table, loop shape): a request rejected at any "
                "pre-flight stage (unloadable/invalid config, missing required key, invalid or over-cap run space, --validate, --dry-run, run-space dry run) produces no NodeRan / SinkWrote / TraceFile effect and the "
                "documented exit code; exit 0 iff every planned run completed; after a failed run no later run starts. Closed under the global context. CLI subprocess correspondence over valid and invalid "
                "configurations x flag combinations (exit code, sink files, trace files, node starts per run), plus direct oracles. A run-space dry run is requested by any truthy spelling of run_space.dry_run (C17_dry_run_spellings over Model/Loader.v; generated fact, hard obligation). The run-space flags of the command line reach the run space in force wherever it is written "
                "(C17_flags_act_on_the_run_space_in_force, C17_flags_reach_the_launch, C17_run_space_file_wins over Model/Placement.v; which block the loader prefers and which block _run patches are generated facts, hard obligations; "
                "refuted_when theorems for the two other patch rules; placement / malformed-source oracles on `semantiva run`).",
        "note": "Model coq/Model/Cli.v composed with Inspect.v / RunSpace.v / Pipeline.v; KeyboardInterrupt (exit 5) and argparse usage errors only appear in the generated table; --validate returns before run-space planning (oracle accepts 0 or 3 there).",
        "technique": "Coq proof over generated decision chain + CLI subprocess correspondence",
        "design": "DESIGN.md section 6, C17",
    },
    "C18": {
        "text": "Theorems over a model of process-wide state (component registry, memo caches, transport queue of the current Pipeline, worker job channels, live generated classes) and the four ways of repeating a run: "
                "stability after warm-up conditional on the generated facts (classes memoised or unregistered, outputs consumed, channels removed), and for the CURRENT facts the closed forms "
                "|registry(N runs)| = |registry| + N*k(cfg), queue = q0 + N*len(cfg), +2 job channels per worker job, for every configuration and N (so the property is refuted on the current tree: open findings "
                "F-C18-a/b/c, printed as KNOWN-FINDING). Closed under the global context. Predicted counts are compared with counts measured in fresh subprocesses after 1/10/30/90/150 (thorough 1/50/150/450) runs.",
        "category": "proof",
        "note": "Model coq/Model/Registry.v; the gc-tracked object population is measured and reported only (CPython allocator/GC is not modelled).",
        "technique": "Coq closed-form induction over run count + generated structural facts + measured-count correspondence",
        "design": "DESIGN.md section 6, C18",
    },
    "C06": {
        "text": "Theorems over a trace model (the Pipeline.v executor threaded with a driver state Closed | Open buffered flushed, a clock oracle and digests for any hash H; the protected-region structure "
                "is a record of facts read from orchestrator.py / jsonl.py): for every pipeline, payload, failure point and failure kind the emitted stream is pipeline_start, one SER per started node in "
                "execution order with linear upstream edges and statuses succeeded* error?, exactly one pipeline_end whose status is ok iff the run returned, every record schema_ok (schema tables generated "
                "from trace/schema/*.json); the original outcome is unchanged and the driver ends Closed with everything flushed. The facts needed (instantiate inside try, BaseException handlers) have hard "
                "obligations after the fix commits; refuted_when witnesses are kept. Closed under the global context. Every generated pipeline x failure index x 7 failure kinds x detail levels x file/directory "
                "output is traced for real, validated with jsonschema and compared with the model's record skeleton.",
        "note": "Model coq/Model/Trace.v; OS-level durability of the flushed file is not modelled (two-state handle); a failing node that changed the context before raising is checked by the direct oracles only.",
        "technique": "Coq proof over all failure points + generated structural facts and schema tables + differential trace correspondence",
        "design": "DESIGN.md section 6, C06",
    },
    "C07": {
        "text": "Theorems over the same trace model: every SER is ser_of the real pre/post states of its node (created/updated keys = the actual context difference, checks PASS iff their condition), "
                "parameters and parameter_sources report the value and channel actually used (conditional fact, hard obligation after the fix), output digest of node k = input digest of node k+1 and equal "
                "content gives equal digests for every H, timestamps denote the UTC instant for every zone offset (hard obligation after the fix), durations non-negative and stamps monotone under a monotone "
                "clock oracle. Closed under the global context. Each SER of real runs is compared with the harness's own execution log; TZ sweep in subprocesses (UTC, +09:00, -08:00, +05:45).",
        "note": "Model coq/Model/Trace.v; a wall clock that steps backwards and in-place mutation of context values shared with the snapshot are outside the model (named assumption mono).",
        "technique": "Coq proof (record-vs-run relations, clock oracle) + generated facts + differential correspondence against the harness execution log",
        "design": "DESIGN.md section 6, C07",
    },
    "C10": {
        "text": "Theorems over the same trace model: the outcome of a traced run equals the outcome of the untraced run at every detail level (including the trace-side JSON serialisation that can raise; "
                "conditional fact with hard obligation after the fix), and normalised traces are equal for all run ids, sequence counters, clocks, zones and prior traced runs of the same object. "
                "Closed under the global context. Each case is run untraced, traced at every detail level, and twice after a random history of other pipelines; normalised traces are compared.",
        "note": "Model coq/Model/Trace.v; user data types whose __len__/__repr__ have side effects are outside the model.",
        "technique": "Coq proof (transparency and reproducibility over histories) + probed facts + paired-run correspondence",
        "design": "DESIGN.md section 6, C10",
    },
    "C15": {
        "text": "Theorems over a model of the queue orchestrator on the abstract transport justified by C14 (actors: enqueue, master dequeue/poll, worker take/finish; any number of jobs and workers; schedules are "
                "arbitrary actor lists): every enqueued job is in exactly one place (no loss, no duplication), a future that is Done holds its own job's annotated outcome, a future is set at most once and never "
                "changes again, a strictly decreasing measure bounds the enabled steps and at quiescence every future is resolved (liveness under a fair scheduler, labelled so), a failing job fails its future "
                "(conditional fact with hard obligation after the fix). Closed under the global context. Real master + 1..4 worker threads on batches of distinct jobs with randomised switch intervals, a failing job "
                "at every position, plus a gate-based deterministic explorer; every run's model-level event trace is replayed in Coq and every future compared with the model and with direct execution. With one copy of the context object per job (generated fact context_copied_at_enqueue, hard obligation) the status of every job carries the id of that job whatever objects the callers hand over (C15_status_carries_the_jobs_own_id over Model/Alias.v; refuted_when without the copy).",
        "note": "Model coq/Model/JobQueue.v over the abstract transport (atomic publish/pop: justified by the C14 theorems); real-time behaviour of the 0.2 s polling and interleavings finer than a transport operation are covered by the randomised runs only.",
        "technique": "Coq invariant proofs over all schedules + generated facts + trace validation of real threaded runs",
        "design": "DESIGN.md section 6, C15",
    },
    "C08": {
        "text": "Theorems over an executable model of expand_run_space: sorted-key order, mixed-radix characterisation of the Cartesian product (last key fastest), by_position alignment, "
                "block and combine characterisations, every run carries exactly the union of keys, every documented rejection, cap rejection (unconditional now that the no-blocks cap "
                "is repaired) and the cost theorem 'rejected for the cap implies nothing materialised' (C08_cap_rejection_builds_nothing, unconditional now that the evaluation order is repaired by fix 7b147bf; "
                "the generated fact 'sizes are computed arithmetically and tested before any run is built' is a hard reflexivity obligation, and for the former order a witness is proved). Closed under the global context. Model vs implementation compared on thousands of specs (incl. csv/json/yaml/ndjson sources) "
                "every run; giant products run in a resource-limited subprocess. The specification as written: Model/Loader.v (_parse_run_space_block with its defaults read from the source, hard "
                "obligations that they are the documented ones and those of schema.py) reads back every specification written in full or with all defaulted members left out "
                "(C08_written_specification_is_read_back); 300 raw blocks per run are parsed by the implementation and read by the model inside Coq. Columns built from the ROWS of a source are aligned with the rows, rows that cannot be aligned are rejected (C08_source_rows_aligned over Model/Rows.v; generated fact rows_checked, hard obligation; refuted_when for the loader without the length test; 300 row files per run compared inside Coq).",
        "note": "Model coq/Model/RunSpace.v; file parsing is cross-checked not modelled; the cost twin is tied to the code through the generated evaluation-order fact and the giant stream.",
        "technique": "Coq proof over executable model + generated facts + differential correspondence + resource-limited giants",
        "design": "DESIGN.md section 6, C08",
    },
    "C13": {
        "text": "Theorems over an executable model of TraceAggregator: ingest steps of non-conflicting records commute (whole-state equality), verdicts are invariant under every permutation "
                "and k-way interleaving of a well-formed record set, finalising any number of times changes nothing, for every prefix length of a runtime-shaped trace the verdict is the "
                "documented one (unknown / partial with missing_pipeline_end and exact missing nodes / complete), launch roll-ups equal the counts of their runs' verdicts; the same at launch "
                "level: for every prefix length of run_space_start :: body ++ [run_space_end] the launch verdict is unknown / partial with the end edge named / complete exactly when every "
                "attached run is complete, with the roll-up counting exactly the runs whose pipeline_start is in the prefix (hard obligation launch_chain_ok on the generated status chain); "
                "a whole launch file whose runs all left complete traces is complete, one with a cut run is partial; runtime traces are well-formed. Closed under the global context. Real traces of single runs and launches are fed to the real aggregator as prefixes, permutations, interleavings and subsets and "
                "compared with the model every run.",
        "note": "Model coq/Model/Aggregator.v; status chains and terminal set regenerated from aggregator.py; timestamps/ids are strings or null.",
        "technique": "Coq proof (commuting steps, induction over prefixes) + generated rule tables + differential correspondence on real traces",
        "design": "DESIGN.md section 6, C13",
    },
    "C14": {
        "text": "Theorems over a small-step interleaving model of InMemorySemantivaTransport (heap of queue objects, channel table, per-thread program counters; "
                "schedules are arbitrary lists of thread ids, any number of publishers, subscribers and messages): conservation (appended = held + reachable queued as "
                "multisets, no duplicate identities), exactly-once at the end, no foreign channel ever delivered, per-(publisher, channel) FIFO, a completed drain empties every "
                "matching channel. They need atomic queue creation and locked append/popleft: both are generated facts read from in_memory.py with hard reflexivity obligations "
                "(the creation race was repaired by a fix commit; C14_refuted_when keeps the losing schedule for the unrepaired variant). Closed under the global context. "
                "Tie = trace validation: real thread schedules are enumerated up to a preemption bound with a deterministic sys.settrace baton scheduler, mapped to model events by "
                "AST anchors, replayed in Coq and compared with the real delivered lists and leftovers. Pattern routing: the theorems hold for every pattern of Model/Glob.v, an executable "
                "shell-style matcher (star, question mark, bracket expressions with negation and ranges) proved to specialise to exact names and prefix-star patterns and compared with the "
                "fnmatch function the transport imports on 1500+ generated (pattern, channel) pairs every run. One consumer over time (Model/Subscription.v: publish / open / next / "
                "close / drain sequences with the closed and finished flags): a closed subscription consumes nothing, for every operation sequence each published message is delivered at most once "
                "and is queued otherwise, a drain leaves no matching message (hard obligation on the generated fact closed_tested_before_pop); the real transport runs the same sequences "
                "and is compared inside Coq.",
        "note": "Model coq/Model/Transport.v; interleaving granularity = source line of in_memory.py plus the defaultdict factory call; preemption inside a single C call is assumed "
                "not to occur; termination of a drain is proved for the sequential model only (fuel above the queued count), under a fair scheduler otherwise; asyncio cancellation "
                "points are exercised by a direct oracle, not modelled.",
        "technique": "Coq invariant proofs over all schedules + generated structural facts + trace validation of real schedules (deterministic scheduler)",
        "design": "DESIGN.md section 6, C14",
    },
    "C11": {
        "text": "Theorems over a rose-tree model of _SafeVisitor instantiated with tables regenerated from safe_eval.py on every run: "
                "acceptance implies every node at any depth/field position (call keywords included) is on the documented whitelist, every call "
                "is a direct call of a whitelisted function, every name is a declared variable, and name resolution never reaches builtins. "
                "Closed under the global context. Accept/reject of the model is compared with ExpressionEvaluator.compile on ASTs enumerated "
                "from the interpreter's grammar and on planted escape idioms every run; accepted expressions are audited independently (ast.walk, bytecode, audit hook).",
        "note": "Model coq/Model/SafeEval.v; CPython compile()/eval() name-resolution order is modelled (locals, env, builtins), not verified; parser shape facts (wfb) checked per case.",
        "technique": "Coq proof over generated tables + exhaustive/path-exhaustive differential correspondence",
        "design": "DESIGN.md section 6, C11",
    },
    "C12": {
        "text": "Theorems over an executable model of the ExpressionSigV1 normaliser: equal signatures imply equal exact values for every assignment, "
                "every commutation/re-association of + and * at any depth keeps the signature (congruence closure), the listed mutations change it; "
                "ast.dump text proved injective. Closed under the global context. The commutative-operator set is regenerated from semantic_id.py on "
                "every run and the model's dump, signature and values are compared string-/value-equal with the implementation every run.",
        "note": "Model coq/Model/Expr.v (integers only: negative exponents count as 'raises'); identifiers contain no quote character.",
        "technique": "Coq proof over executable model + generated tables + differential correspondence (vm_compute)",
        "design": "DESIGN.md section 6, C12",
    },
}

ALL = ["C%02d" % i for i in range(1, 19)]
PENDING_REASON = "not claimed yet: model, theorems and correspondence for this property are still being built in this session (see DESIGN.md section 9); no check is registered until it is sound on the unchanged tree"


def main():
    checks = []
    for pid in ALL:
        if pid not in CLAIMED:
            continue
        c = CLAIMED[pid]
        checks.append({
            "property_id": pid,
            "quick_cmd": "./check %s quick" % pid,
            "thorough_cmd": "./check %s thorough" % pid,
            "evidence_file": "evidence/%s.json" % pid,
            "replay_cmd_template": "./check replay {path}",
            "engine": "coq-models",
            "level_claimed": {"category": c.get("category", "proof"), "text": c["text"], "design_ref": c["design"]},
            "level_note": COMMON_NOTE + c["note"],
            "technique": c["technique"],
        })
    claimed = sorted(CLAIMED)
    m = {
        "version": 1,
        "setup_cmd": "./check setup",
        "hooks": {
            "guard": "SEMANTIVA_VERIF",
            "enable": "no source hooks: checks import /repo's working tree directly (PYTHONPATH=/repo) and observe it through public entry points, harness-side components and sys.settrace",
            "baseline_off_cmd": "cd /repo && /venv/bin/python -m pytest -ra -q -p no:cacheprovider --timeout=900 --continue-on-collection-errors",
            "source_commits": [],
            "add_only": True,
        },
        "engines": [
            {"name": "coq-models", "path": "coq/", "serves_properties": claimed,
             "kind_free_text": "Coq 8.16.1 development: executable Gallina models (Model/), tables regenerated from /repo by fail-closed ast translators (Gen/), lemmas (Proofs/), property theorems with Print Assumptions (Properties/)"},
            {"name": "harness", "path": "harness/", "serves_properties": claimed,
             "kind_free_text": "Python driver: translation, full .vo build, grep gate, correspondence shards evaluated by coqc/vm_compute, direct oracles on the implementation, evidence"},
        ],
        "checks": checks,
        "not_applicable": [{"property_id": p, "reason": NA.get(p, PENDING_REASON)} for p in ALL if p not in CLAIMED],
        "notes": "Fix commits in /repo (unguarded, 'fix:'): see known_findings.json. DESIGN.md describes the approach and which seeded changes each check catches.",
    }
    with open(os.path.join(ROOT, "MANIFEST.json"), "w") as f:
        json.dump(m, f, indent=1)
    print("MANIFEST.json: %d checks, %d not claimed" % (len(checks), len(m["not_applicable"])))


NA = {}

if __name__ == "__main__":
    main()
