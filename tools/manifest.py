#!/usr/bin/env python3
"""Regenerate /verif/MANIFEST.json from the table below (keeps it valid and current)."""
import json
import os

ROOT = os.path.dirname(os.path.dirname(os.path.abspath(__file__)))

COMMON_NOTE = ("Trusted: Coq 8.16.1 kernel + vm_compute (no native_compute, no axioms declared; Print Assumptions of every "
               "property theorem is recorded in evidence); the hand-written Gallina model named below; the fail-closed ast "
               "translator producing coq/Gen/*.v; the correspondence harness (generators, drivers of /repo code, Gallina literal emission). ")

CLAIMED = {
    "C11": {
        "text": "Theorems over a rose-tree model of _SafeVisitor instantiated with tables regenerated from safe_eval.py on every run: "
                "acceptance implies every node at any depth/field position (call keywords included) is on the documented whitelist, every call "
                "is a direct call of a whitelisted function, every name is a declared variable, and name resolution never reaches builtins. "
                "Closed under the global context. Accept/reject of the model is compared with ExpressionEvaluator.compile on ASTs enumerated "
                "from the interpreter's grammar and on planted escape idioms every run; accepted expressions are audited independently (ast.walk, bytecode, audit hook).",
        "note": "Model coq/Model/SafeEval.v; CPython compile()/eval() name-resolution order is modelled (locals, env, builtins), not verified; parser shape facts (wfb) checked per case.",
        "technique": "Coq proof over generated tables + exhaustive/path-exhaustive differential correspondence",
        "design": "DESIGN.md section 6, C11",
    },
    "C12": {
        "text": "Theorems over an executable model of the ExpressionSigV1 normaliser: equal signatures imply equal exact values for every assignment, "
                "every commutation/re-association of + and * at any depth keeps the signature (congruence closure), the listed mutations change it; "
                "ast.dump text proved injective. Closed under the global context. The commutative-operator set is regenerated from semantic_id.py on "
                "every run and the model's dump, signature and values are compared string-/value-equal with the implementation every run.",
        "note": "Model coq/Model/Expr.v (integers only: negative exponents count as 'raises'); identifiers contain no quote character.",
        "technique": "Coq proof over executable model + generated tables + differential correspondence (vm_compute)",
        "design": "DESIGN.md section 6, C12",
    },
}

ALL = ["C%02d" % i for i in range(1, 19)]
PENDING_REASON = "not claimed yet: model, theorems and correspondence for this property are still being built in this session (see DESIGN.md section 9); no check is registered until it is sound on the unchanged tree"


def main():
    checks = []
    for pid in ALL:
        if pid not in CLAIMED:
            continue
        c = CLAIMED[pid]
        checks.append({
            "property_id": pid,
            "quick_cmd": "./check %s quick" % pid,
            "thorough_cmd": "./check %s thorough" % pid,
            "evidence_file": "evidence/%s.json" % pid,
            "replay_cmd_template": "./check replay {path}",
            "engine": "coq-models",
            "level_claimed": {"category": c.get("category", "proof"), "text": c["text"], "design_ref": c["design"]},
            "level_note": COMMON_NOTE + c["note"],
            "technique": c["technique"],
        })
    claimed = sorted(CLAIMED)
    m = {
        "version": 1,
        "setup_cmd": "./check setup",
        "hooks": {
            "guard": "SEMANTIVA_VERIF",
            "enable": "no source hooks: checks import /repo's working tree directly (PYTHONPATH=/repo) and observe it through public entry points, harness-side components and sys.settrace",
            "baseline_off_cmd": "cd /repo && /venv/bin/python -m pytest -ra -q -p no:cacheprovider --timeout=900 --continue-on-collection-errors",
            "source_commits": [],
            "add_only": True,
        },
        "engines": [
            {"name": "coq-models", "path": "coq/", "serves_properties": claimed,
             "kind_free_text": "Coq 8.16.1 development: executable Gallina models (Model/), tables regenerated from /repo by fail-closed ast translators (Gen/), lemmas (Proofs/), property theorems with Print Assumptions (Properties/)"},
            {"name": "harness", "path": "harness/", "serves_properties": claimed,
             "kind_free_text": "Python driver: translation, full .vo build, grep gate, correspondence shards evaluated by coqc/vm_compute, direct oracles on the implementation, evidence"},
        ],
        "checks": checks,
        "not_applicable": [{"property_id": p, "reason": NA.get(p, PENDING_REASON)} for p in ALL if p not in CLAIMED],
        "notes": "Fix commits in /repo (unguarded, 'fix:'): see known_findings.json. DESIGN.md describes the approach and which seeded changes each check catches.",
    }
    with open(os.path.join(ROOT, "MANIFEST.json"), "w") as f:
        json.dump(m, f, indent=1)
    print("MANIFEST.json: %d checks, %d not claimed" % (len(checks), len(m["not_applicable"])))


NA = {}

if __name__ == "__main__":
    main()
