#!/usr/bin/env python3
"""Run every registered check (quick or thorough) for the given seeds on the current tree and summarise.
   tools/runall.py quick 0 1 2"""
import json, os, subprocess, sys, time
tier = sys.argv[1] if len(sys.argv) > 1 else "quick"
seeds = sys.argv[2:] or ["0"]
m = json.load(open("/verif/MANIFEST.json"))
bad = 0
for seed in seeds:
    for c in m["checks"]:
        pid = c["property_id"]
        t0 = time.time()
        e = dict(os.environ, VERIF_SEED=seed, VERIF_TIER=tier)
        cmd = c["quick_cmd"] if tier == "quick" else c["thorough_cmd"]
        p = subprocess.run(cmd, shell=True, cwd="/verif", env=e, stdout=subprocess.PIPE, stderr=subprocess.STDOUT, text=True)
        lines = [l for l in p.stdout.split("\n") if l.startswith(("VIOLATION", "KNOWN-FINDING"))]
        status = "ok" if p.returncode == 0 else "ALARM"
        bad += p.returncode != 0
        print("%s seed=%s %-5s %6.1fs %s" % (pid, seed, status, time.time() - t0, " | ".join(l[:90] for l in lines[:3])), flush=True)
        if p.returncode != 0:
            open("/verif/build/runall_%s_%s.log" % (pid, seed), "w").write(p.stdout)
sys.exit(1 if bad else 0)
