#!/usr/bin/env python3
"""Store a confirmed seeded change under /verif/seeded/<id>/ from a seedtest.py JSON result.
   tools/seed_keep.py <id> <property> <result.json> <patch> <demo> "<what it needs to manifest>" """
import json, os, shutil, sys
sid, prop, res, patch, demo, needs = sys.argv[1:7]
d = os.path.join("/verif/seeded", sid)
os.makedirs(d, exist_ok=True)
shutil.copy(patch, os.path.join(d, "patch.diff"))
shutil.copy(demo, os.path.join(d, os.path.basename(demo)))
r = json.load(open(res))
meta = {"id": sid, "breaks_property": prop, "needs_to_manifest": needs,
        "baseline_with_change": r["baseline_with_change"], "demo_with_change_rc": r["demo_with_change"]["rc"],
        "demo_without_change_rc": r["demo_without_change"]["rc"],
        "checks": {c: {"exit": v["rc"], "lines": v["lines"][:4], "wall_s": v["wall"]} for c, v in r["checks"].items()},
        "caught_by": [c for c, v in r["checks"].items() if v["rc"] != 0],
        "ran": "tools/seedtest.py: git -C /repo apply patch.diff; tools/baseline.py; demo (PYTHONPATH=/repo); ./check <Cxx> quick; git -C /repo checkout -- .; demo again"}
json.dump(meta, open(os.path.join(d, "meta.json"), "w"), indent=1)
print("kept", d, "caught_by", meta["caught_by"])
