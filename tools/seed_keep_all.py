#!/usr/bin/env python3
"""Store every confirmed seeded change of round 1 under /verif/seeded/<id>/ from the seedtest.py results.
   first pass: build/seedres/<Cxx>_<V>.json (checks as they were when the change was delivered)
   second pass: build/seedres2/<Cxx>_<V>.json (checks after strengthening)
   usage: tools/seed_keep_all.py [<outdir-prefix> <res1> <res2>]   (defaults: /tmp/seed_ build/seedres build/seedres2)"""
import json, os, re, shutil, sys

OUTPAT, RES1, RES2 = (sys.argv[1:4] + ["/tmp/seed_{prop}_out", "/verif/build/seedres", "/verif/build/seedres2"][len(sys.argv) - 1:])[:3]
VARIANTS = sys.argv[4] if len(sys.argv) > 4 else "AB"
TABLE = json.load(open(os.path.join(os.path.dirname(__file__), "seed_table.json")))


def rewrite_demo(src, dst):
    txt = open(src).read()
    txt = re.sub(r"/tmp/(seed|s2)_C\d+(?![_\d\w])", "/repo", txt)
    open(dst, "w").write(txt)


def main():
    n = 0
    for key, ent in sorted(TABLE.items()):
        prop, var = key.split("_")
        if var not in VARIANTS:
            continue
        out = OUTPAT.format(prop=prop)
        patch = os.path.join(out, "patch_%s.diff" % var)
        demo = os.path.join(out, "demo_%s.py" % var)
        r2p = os.path.join(RES2, key + ".json")
        if not os.path.exists(r2p):
            r2p = os.path.join(RES1, key + ".json")      # not re-evaluated: the first evaluation stands
        if not (os.path.exists(patch) and os.path.exists(r2p)):
            continue
        try:
            r2 = json.load(open(r2p))
        except Exception:
            print("skip", key, "(result not json)")
            continue
        r1 = None
        if os.path.exists(os.path.join(RES1, key + ".json")):
            try:
                r1 = json.load(open(os.path.join(RES1, key + ".json")))
            except Exception:
                r1 = None
        if r2["baseline_with_change"]["rc"] != 0 or r2["demo_without_change"]["rc"] != 0:
            print("NOT CONFIRMED", key, r2["baseline_with_change"], r2["demo_without_change"]["rc"])
            continue
        if r2["demo_with_change"]["rc"] == 0 and not ent.get("demo_confirmed_by_hand"):
            print("NOT CONFIRMED (demo passes with the change)", key)
            continue
        sid = "%s-%s-%s" % (prop, var, ent["slug"])
        d = os.path.join("/verif/seeded", sid)
        os.makedirs(d, exist_ok=True)
        shutil.copy(patch, os.path.join(d, "patch.diff"))
        rewrite_demo(demo, os.path.join(d, "demo.py"))
        notes = os.path.join(out, "notes.md")
        meta = {"id": sid, "breaks_property": prop, "needs_to_manifest": ent["needs"],
                "baseline_with_change": r2["baseline_with_change"],
                "demo_with_change_rc": r2["demo_with_change"]["rc"], "demo_without_change_rc": r2["demo_without_change"]["rc"],
                "checks": {c: {"exit": v["rc"], "lines": [l for l in v["lines"] if not l.startswith("KNOWN-FINDING")][:4], "wall_s": v["wall"]}
                           for c, v in r2["checks"].items()},
                "caught_by": [c for c, v in r2["checks"].items() if v["rc"] != 0],
                "concrete_failing_input": {c: any(l.startswith("VIOLATION") and "no-failing-input-found" not in l for l in v["lines"])
                                           for c, v in r2["checks"].items() if v["rc"] != 0},
                "ran": "tools/seedtest.py: git -C /repo apply patch.diff; tools/baseline.py; demo (PYTHONPATH=/repo); ./check <Cxx> quick; "
                       "git -C /repo checkout -- .; demo again"}
        if r1 is not None:
            meta["first_evaluation_caught_by"] = [c for c, v in r1["checks"].items() if v["rc"] != 0]
        if ent.get("strengthened"):
            meta["check_strengthened_after_this_change"] = ent["strengthened"]
        json.dump(meta, open(os.path.join(d, "meta.json"), "w"), indent=1)
        n += 1
    print("kept", n)


if __name__ == "__main__":
    main()
