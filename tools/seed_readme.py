#!/usr/bin/env python3
"""Regenerate /verif/seeded/README.md from the meta.json files."""
import glob, json, os
rows = []
for f in sorted(glob.glob("/verif/seeded/*/meta.json")):
    m = json.load(open(f))
    cfi = m.get("concrete_failing_input", {})
    rows.append("| %s | %s | %s | %s | %s | %s |" % (m["id"], m["breaks_property"], m["needs_to_manifest"].replace("|", "/"),
                ", ".join("%s%s" % (c, "" if cfi.get(c, True) else " (no-failing-input-found)") for c in m["caught_by"]) or "**missed**",
                "; ".join("%s exit %s" % (c, v["exit"]) for c, v in m["checks"].items()),
                (m.get("check_strengthened_after_this_change") or "").replace("|", "/")))
open("/verif/seeded/README.md", "w").write(
    "# Seeded changes\n\nEach directory holds patch.diff, the demonstration and meta.json (see DESIGN.md section 16).\n"
    "All pass the 503-test baseline; each demonstration fails with the change and passes without it.\n\n"
    "| id | property | needs to manifest | caught by | checks run | check strengthened after this change |\n|---|---|---|---|---|---|\n" + "\n".join(rows) + "\n")
print(len(rows), "seeded changes")
