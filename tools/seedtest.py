#!/usr/bin/env python3
"""Evaluate one seeded change against the checks:
   tools/seedtest.py <seed-dir> <patch-file> <demo-file> <Cxx> [<Cyy> ...]
Applies the patch to /repo, runs the pinned baseline, the demonstration and the named quick checks,
then restores /repo (git checkout -- .) and re-runs the demonstration.  Prints a JSON summary."""
import json, os, subprocess, sys, time

def sh(cmd, timeout=3600, env=None):
    e = dict(os.environ); e.update(env or {})
    p = subprocess.run(cmd, shell=True, stdout=subprocess.PIPE, stderr=subprocess.STDOUT, text=True, timeout=timeout, env=e)
    return p.returncode, p.stdout

def demo(path):
    # a demonstration written against the sub-agent's scratch worktree runs against /repo here
    import re, tempfile
    txt = open(path).read()
    new = re.sub(r"/tmp/seed_C\d+(?![_\d\w])", "/repo", txt)
    if new != txt:
        d = tempfile.mkdtemp(prefix="seeddemo_")
        path2 = os.path.join(d, os.path.basename(path))
        open(path2, "w").write(new)
        path = path2
    if path.endswith("_test.py") or os.path.basename(path).startswith("test_"):
        return sh("cd /tmp && PYTHONPATH=/repo /venv/bin/python -m pytest -q -p no:cacheprovider %s" % path, 900)
    return sh("cd /tmp && PYTHONPATH=/repo /venv/bin/python %s" % path, 900)

def main():
    sd, patch, dm = sys.argv[1:4]
    checks = [c for c in sys.argv[4:] if not c.startswith("--")]
    reuse = [c[len("--reuse="):] for c in sys.argv[4:] if c.startswith("--reuse=")]
    out = {"seed": sd, "patch": patch, "demo": dm, "checks": {}}
    rc, o = sh("git -C /repo status --porcelain --untracked-files=no")
    if o.strip():
        print("refusing: /repo has uncommitted tracked changes\n" + o); return 2
    rc, o = sh("git -C /repo apply %s" % patch)
    if rc != 0:
        print("patch does not apply:\n" + o); return 2
    try:
        old = json.load(open(reuse[0])) if reuse and os.path.exists(reuse[0]) else None
        if old and old.get("baseline_with_change", {}).get("rc") == 0:
            out["baseline_with_change"] = old["baseline_with_change"]    # same patch, measured in the first evaluation
        else:
            rc, o = sh("python3 /verif/tools/baseline.py", 1800)
            out["baseline_with_change"] = {"rc": rc, "tail": o.strip().split("\n")[-3:]}
        rc, o = demo(dm)
        out["demo_with_change"] = {"rc": rc, "tail": o.strip().split("\n")[-6:]}
        for c in checks:
            t0 = time.time()
            rc, o = sh("cd /verif && ./check %s quick" % c, 3600)
            lines = [l for l in o.split("\n") if l.startswith(("VIOLATION", "BROKEN"))]
            lines += [l[:160] for l in o.split("\n") if l.startswith("KNOWN-FINDING")]
            out["checks"][c] = {"rc": rc, "lines": lines[:8], "wall": round(time.time() - t0, 1)}
            sh("mkdir -p /verif/build/seed_replays/%s && cp -r /verif/evidence/replay/%s_* /verif/build/seed_replays/%s/ 2>/dev/null" % (os.path.basename(sd), c, os.path.basename(sd)))
    finally:
        sh("git -C /repo checkout -- .")
    rc, o = demo(dm)
    out["demo_without_change"] = {"rc": rc, "tail": o.strip().split("\n")[-3:]}
    print(json.dumps(out, indent=1))
    return 0

if __name__ == "__main__":
    sys.exit(main())
